"""C04 (PLS regression is a least-squares family): the structural / exact-arithmetic part.   Engine E18.

Nothing is executed.  The statements that close one NIPALS latent variable (LVCalc, after its iteration) are interpreted over a small
free algebra: every vector is a linear combination  sum_k c_k * B_k  of base vectors (the iterates t, u, w, q the loop left, and
products such as X't formed from them), every scalar a rational function of inner products <B_i, B_j> and norms |B_i|, every matrix
X0 + sum c * A B'.  Equality in that algebra is decided by cross-multiplication; no numeric value is involved.  The rules:

  PLS.latent-variable   what LVCalc hands back is, in exact arithmetic,
                            p = X't/t't scaled to unit length,   t <- t*|X't/t't|,   w <- w*|X't/t't|,   b = u't / t't  (with the final t),
                            X <- X - t p',   Y <- Y - b t q'     (the t, p, q, b that are handed back)
                        -- the inner relation and the deflation that make the score-based predictor a least-squares fit
  PLS.store             PLS() stores each vector LVCalc hands back in the model field of the same role, in column `lv`, and appends b
  PLS.predictor         PLSYPredictor:  y[i][j] = (sum_{lv < nlv} b[lv] * t[i][lv] * q[j][lv]) * yscale[j] + ymean[j]   -- scale first, then shift
  PLS.score-predictor   PLSScorePredictor deflates the projected block with the stored loadings:  X <- X - t p_lv'  and stores t as column lv
  MX.definition         PLSBetasCoeff returns  W (P'W)^-1 b  over the first nlv latent variables  (rule of E17)

Not decided here: the convergence of the NIPALS iteration, the OLS limit at full rank and the monotonicity of R2 as numerical facts."""
from . import frontend as fe
from .frontend import kids, strip, walk, callee_name, call_args
from . import exprs
from .sym import Poly
from .spline import Rat
from .kerneldef import Extractor, Unsupported, unify, cell
from .report import Finding
from .degenerate import _has_nan_test


def rel(p):
    return p[len(fe.REPO) + 1:] if p.startswith(fe.REPO + '/') else p


class NotUnderstood(Exception):
    pass


ONE = Rat(Poly.const(1))
ZERO = Rat(Poly.const(0))


def rsubst(r, m):
    """substitute rational values for atoms of a rational expression"""
    def poly(p):
        tot = ZERO
        for k, v in p.t.items():
            term = Rat(Poly.const(v))
            for a in k:
                term = term * (m[a] if a in m else Rat(Poly.atom(a)))
            tot = tot + term
        return tot
    if not any(a in m for a in r.atoms()):
        return r
    return poly(r.n) / poly(r.d)


def N(a):
    if a.startswith('unit('):
        return ONE                                        # a base vector introduced by normalising a combination: unit length by construction
    return Rat(Poly.atom('|%s|' % a))


def dot_base(a, b):
    if a == b:
        return N(a) * N(a)
    x, y = sorted((a, b))
    return Rat(Poly.atom('<%s,%s>' % (x, y)))


def vdot(u, v):
    tot = ZERO
    for a, ca in u.items():
        for b, cb in v.items():
            tot = tot + ca * cb * dot_base(a, b)
    return tot


def vadd(u, v, c=ONE):
    r = dict(u)
    for b, cb in v.items():
        x = r.get(b, ZERO) + c * cb
        if x.is_zero():
            r.pop(b, None)
        else:
            r[b] = x
    return r


def vscale(u, c):
    return {b: x * c for b, x in u.items() if not (x * c).is_zero()}


def vsame(u, v):
    return set(u) == set(v) and all(u[b].same(v[b]) for b in u)


def msame(a, b):
    return set(a) == set(b) and all(a[k].same(b[k]) for k in a)


def vshow(u):
    return ' + '.join('(%r)*%s' % (c, b) for b, c in sorted(u.items())) or '0'


def mshow(m):
    return ' + '.join('(%r)*%s' % (c, k[1] if k[0] == 'M' else '%s %s\'' % (k[1], k[2])) for k, c in sorted(m.items())) or '0'


def guard_kind(f, cond):
    """classify the condition of a branch that replaces a component by zeros.  Returns None when it contains no NaN test (an ordinary branch),
    else (literal_thresholds, other): the disjuncts that compare a floating value with a non-zero literal, and the disjuncts that are neither
    a NaN test, nor a comparison with literal 0, nor such a threshold"""
    cond = _resolve_flag(f, cond)
    if not _has_nan_test(cond):
        return None
    parts = []

    def split(n):
        n0 = strip(n)
        while n0.get('kind') == 'ParenExpr':
            n0 = strip(kids(n0)[0])
        if n0.get('kind') == 'ConditionalOperator' and len(kids(n0)) == 3 and _literal(kids(n0)[1]) == 1.0 and _literal(kids(n0)[2]) == 0.0:
            split(kids(n0)[0])                      # (c) ? 1 : 0
            return
        if n0.get('kind') == 'BinaryOperator' and n0.get('opcode') == '||':
            for c in kids(n0):
                split(c)
        else:
            parts.append(n0)
    split(cond)

    def is_nan_test(d):
        if d.get('kind') == 'BinaryOperator' and d.get('opcode') == '!=' and exprs.text_key(kids(d)[0]) == exprs.text_key(kids(d)[1]):
            return True
        return d.get('kind') == 'CallExpr' and callee_name(d) in ('_isnan_', 'isnan', '__builtin_isnan')
    lits, other = [], []
    for d in parts:
        if is_nan_test(d):
            continue
        shown_ = f.unit.text(d)[:60]
        if d.get('kind') == 'UnaryOperator' and d.get('opcode') == '!':
            # !(x > c)  is  x <= c
            inner = strip(kids(d)[0])
            while inner.get('kind') == 'ParenExpr':
                inner = strip(kids(inner)[0])
            if inner.get('kind') == 'BinaryOperator' and inner.get('opcode') in ('<', '<=', '>', '>='):
                d = inner
        if d.get('kind') == 'BinaryOperator' and d.get('opcode') in ('<', '<=', '>', '>=', '=='):
            a, b = kids(d)
            la, lb = _literal(a), _literal(b)
            if (la is not None) != (lb is not None):
                v = la if la is not None else lb
                if v == 0.0:
                    tested = f.unit.text(b if la is not None else a).replace(' ', '')
                    if tested.startswith('mod_') or tested.startswith('dot_') or 'DotProd' in tested or tested in ('conv',) or tested.startswith('(*'):
                        continue                            # exactly zero squared norm / criterion: the null component itself
                    other.append(f.unit.text(d)[:60])       # zero test of some other quantity: not known to mean "null component"
                    continue
                lits.append((shown_, v))
                continue
        other.append(shown_)
    return lits, other


def _resolve_flag(f, cond, depth=0):
    """`int nullpc = (isnan(conv) || ...); if (nullpc)`: a condition that is just an integer local with a single definition stands for that definition"""
    c0 = strip(cond)
    while c0.get('kind') == 'ParenExpr':
        c0 = strip(kids(c0)[0])
    if depth > 2 or c0.get('kind') != 'DeclRefExpr' or fe.is_float_type(c0) or c0['referencedDecl'].get('kind') != 'VarDecl' or f.body is None:
        return cond
    did = c0['referencedDecl'].get('id')
    defs = []
    for n in walk(f.body):
        if n.get('kind') == 'VarDecl' and n.get('id') == did and kids(n):
            defs.append(kids(n)[-1])
        if n.get('kind') in ('BinaryOperator', 'CompoundAssignOperator') and n.get('opcode', '').endswith('=') and n.get('opcode') not in ('==', '!=', '<=', '>=') \
                and fe.ref_id(kids(n)[0]) == did:
            defs.append(kids(n)[1])
    if len(defs) != 1:
        return cond
    return _resolve_flag(f, defs[0], depth + 1)


def _literal(n):
    v = strip(n, casts=True) if 'casts' in strip.__code__.co_varnames else strip(n)
    while v.get('kind') == 'ParenExpr':
        v = strip(kids(v)[0])
    sign = 1.0
    if v.get('kind') == 'UnaryOperator' and v.get('opcode') in ('+', '-'):
        sign = -1.0 if v['opcode'] == '-' else 1.0
        v = strip(kids(v)[0])
    if v.get('kind') in ('FloatingLiteral', 'IntegerLiteral'):
        try:
            return sign * float(v.get('value'))
        except (TypeError, ValueError):
            return None
    return None


class Tail:
    """interpreter for a straight-line sequence of vector kernels and whole-vector loops"""

    def __init__(self, prog, f):
        self.prog, self.f = prog, f
        self.vec, self.mat, self.sc = {}, {}, {}
        self.out = {}            # parameter name -> value handed back
        self.notes = []
        self.defs = {}           # unit(...) base vector -> the combination it normalises
        self.colstores = []      # (container, column, source vector, its value, extent, node)
        self.cellstores = []     # (container, index text, scalar value, node)
        self.same_size = {}      # vector -> extents known to equal its size (from its allocation)
        self.partial = []        # (container, where, how) updates that provably touch only part of a container
        self.linestores = []     # (local matrix, 'row'|'col', index, source vector, its value, extent, node)
        self.thresholds = []     # (where, text, literal) magnitude tests that send a non-null component down the null-component branch
        self.ignore_out = None
        self.params, self.pnames = set(), [p['name'] for p in f.params]

    def clone(self):
        t = Tail(self.prog, self.f)
        t.vec = {k: dict(v) for k, v in self.vec.items()}
        t.mat = {k: dict(v) for k, v in self.mat.items()}
        t.sc = dict(self.sc)
        t.out = dict(self.out)
        t.notes = list(self.notes)
        t.params, t.pnames = self.params, self.pnames
        t.defs = self.defs                                 # shared: definitions are global facts
        t.ignore_out = self.ignore_out
        t.colstores = list(self.colstores)
        t.cellstores = list(self.cellstores)
        t.same_size = self.same_size
        t.partial = list(self.partial)
        t.thresholds = list(self.thresholds)
        t.linestores = list(self.linestores)
        t.path = list(getattr(self, 'path', []))
        t.imprecise = getattr(self, 'imprecise', False)
        return t

    def nm(self, e):
        e = strip(e)
        while e.get('kind') in ('UnaryOperator',) and e.get('opcode') in ('&', '*'):
            e = strip(kids(e)[0])
        if e.get('kind') == 'DeclRefExpr':
            return e['referencedDecl'].get('name')
        if e.get('kind') == 'ArraySubscriptExpr':
            b = strip(kids(e)[0])
            if b.get('kind') == 'MemberExpr' and b.get('name') == 'm':
                # block k of a tensor:  X->m[k]  is named  X[k]  (the cell-form extractor names its cells  X[k, i, j])
                base = self.f.unit.text(kids(b)[0]).replace(' ', '')
                for i_, pn_ in enumerate(self.pnames):
                    if base == pn_ or base.startswith(pn_ + '->'):
                        base = '$%d' % i_ + base[len(pn_):]
                return '%s[%s]' % (base, self.f.unit.text(kids(e)[1]).replace(' ', ''))
        raise NotUnderstood('argument %s' % self.f.unit.text(e)[:40])

    def v(self, name):
        if name not in self.vec:
            raise NotUnderstood('vector %s has no tracked value' % name)
        return self.vec[name]

    def scalar(self, e):
        e = strip(e)
        k = e.get('kind')
        if k == 'ParenExpr':
            return self.scalar(kids(e)[0])
        if k == 'FloatingLiteral':
            from fractions import Fraction
            fr = Fraction(str(e.get('value'))).limit_denominator(10 ** 9)
            return Rat(Poly.const(fr.numerator), Poly.const(fr.denominator))
        if k == 'IntegerLiteral':
            return Rat(Poly.const(int(e['value'])))
        if k == 'CallExpr':
            cn = callee_name(e)
            a = call_args(e)
            if cn == 'DVectorDVectorDotProd' and len(a) == 2:
                return vdot(self.v(self.nm(a[0])), self.v(self.nm(a[1])))
            if cn == 'DvectorModule' and len(a) == 1:
                return self.norm(self.v(self.nm(a[0])))
            raise NotUnderstood('scalar call %s' % cn)
        if k == 'BinaryOperator' and e.get('opcode') in ('+', '-', '*', '/'):
            x, y = self.scalar(kids(e)[0]), self.scalar(kids(e)[1])
            if e['opcode'] == '/' and y.is_zero():
                raise NotUnderstood('division by a value that is identically zero')
            return {'+': x.__add__, '-': x.__sub__, '*': x.__mul__, '/': x.__truediv__}[e['opcode']](y)
        if k == 'DeclRefExpr' or (k == 'UnaryOperator' and e.get('opcode') == '*'):
            n_ = ('*' if k == 'UnaryOperator' else '') + self.nm(e)
            if n_ in self.sc:
                return self.sc[n_]
            raise NotUnderstood('scalar %s has no tracked value' % n_)
        raise NotUnderstood('scalar expression %s' % self.f.unit.text(e)[:50])

    def norm(self, u):
        if not u:
            return ZERO
        if len(u) != 1:
            # the norm of a combination: an uninterpreted positive symbol (its square is not related to the inner products; verdicts that would
            # need that relation are left undecided, see `settled`)
            self.imprecise = True
            return Rat(Poly.atom('|%s|' % vshow(u)))
        (b, c), = u.items()
        self.notes.append('|c*%s| taken as c*|%s| (c is a quotient of norms and squared norms, hence positive)' % (b, b))
        return c * N(b)

    def prod(self, M, u, transposed):
        r = {}
        for key, c in M.items():
            if key[0] in ('M', 'Mt'):
                tr = transposed != (key[0] == 'Mt')
                for b, cb in u.items():
                    r = vadd(r, {'%s%s*%s' % (key[1], "'" if tr else '', b): ONE}, c * cb)
            else:
                _, A_, B_ = key
                left, right = (A_, B_) if transposed else (B_, A_)        # (A B')' u = B <A,u>;   (A B') u = A <B,u>
                r = vadd(r, {right: ONE}, c * vdot({left: ONE}, u))
        return r

    def call(self, n):
        cn = callee_name(n)
        a = call_args(n)
        if cn in ('DelMatrix', 'DelDVector', 'printf', 'puts', 'PrintMatrix', 'PrintDVector', 'fprintf'):
            return
        if cn == 'NewDVector' and len(a) == 2:
            self.vec[self.nm(a[0])] = {}                       # allocated zero-filled
            self.same_size.setdefault(self.nm(a[0]), set()).add(self.f.unit.text(a[1]).replace(' ', ''))
            return
        if cn == 'MatrixTranspose' and len(a) == 2:
            src_ = self.mat.get(self.nm(a[0]))
            if src_ is None:
                raise NotUnderstood('matrix %s has no tracked value' % self.nm(a[0]))
            self.mat[self.nm(a[1])] = {({'M': 'Mt', 'Mt': 'M'}[k_[0]], k_[1]) if k_[0] in ('M', 'Mt') else ('outer', k_[2], k_[1]): c_ for k_, c_ in src_.items()}
            return
        if cn in ('DVectorMatrixDotProduct', 'MT_DVectorMatrixDotProduct') and len(a) == 3:
            M, u, o = self.mat.get(self.nm(a[0])), self.v(self.nm(a[1])), self.nm(a[2])
            if M is None:
                raise NotUnderstood('matrix %s has no tracked value' % self.nm(a[0]))
            self.vec[o] = vadd(self.v(o), self.prod(M, u, True))
            return
        if cn in ('MatrixDVectorDotProduct', 'MT_MatrixDVectorDotProduct') and len(a) == 3:
            M, u, o = self.mat.get(self.nm(a[0])), self.v(self.nm(a[1])), self.nm(a[2])
            if M is None:
                raise NotUnderstood('matrix %s has no tracked value' % self.nm(a[0]))
            self.vec[o] = vadd(self.v(o), self.prod(M, u, False))
            return
        if cn == 'DVectNorm' and len(a) == 2:
            u = self.v(self.nm(a[0]))
            if len(u) > 1:
                # normalising a combination: a new base vector of unit length, remembered with its definition
                b = 'unit(%s)' % vshow(u)
                self.defs[b] = dict(u)
                self.vec[self.nm(a[1])] = {b: ONE}
                return
            nn = self.norm(u)
            if nn.is_zero():
                raise NotUnderstood('normalisation of the zero vector')
            self.vec[self.nm(a[1])] = vscale(u, ONE / nn)
            return
        if cn == 'DVectorSet' and len(a) == 2:
            c = self.scalar(a[1])
            self.vec[self.nm(a[0])] = {} if c.is_zero() else {'1': c}          # '1' is the all-ones vector
            return
        if cn == 'DVectorCopy' and len(a) == 2:
            s, d = self.nm(a[0]), self.nm(a[1])
            self.vec[d] = dict(self.v(s))
            if d in self.params:
                self.out[d] = ('v', dict(self.v(s)))
            return
        if cn == 'MatrixCopy' and len(a) == 2:
            s, d = self.nm(a[0]), self.nm(a[1])
            if s not in self.mat:
                raise NotUnderstood('matrix %s has no tracked value' % s)
            self.mat[d] = dict(self.mat[s])
            if d in self.params:
                self.out[d] = ('m', dict(self.mat[s]))
            return
        raise NotUnderstood('call to %s' % cn)

    def fibre(self, at, var):
        """the vector a cell atom stands for when `var` runs:  L:v[var]  is the local vector v;  P[..][var][c]  (or P[var][c]) is the fibre of a
        container the routine reads -- the value stored into it earlier on this path if there is one (store-to-load forwarding), else an opaque base vector"""
        if at.startswith('L:') and at.count('[') == 1 and at.endswith('[%s]' % var):
            return self.v(at[2:].split('[')[0])
        if at.startswith('L:'):
            raise NotUnderstood('vector factor %s' % at)
        parts = at.split('[')
        base, idxs = parts[0], [x[:-1] for x in parts[1:]]
        if idxs.count(var) != 1 or any('@' in x and x != var for x in idxs):
            raise NotUnderstood('vector factor %s' % at)
        pos = idxs.index(var)
        if pos == len(idxs) - 2:
            cont = base + ''.join('[%s]' % x for x in idxs[:pos])
            for arr, col, src, val, ext, node in self.colstores[::-1]:
                if arr == cont and col == idxs[-1]:
                    return dict(val)
            return {'%s[:,%s]' % (cont, idxs[-1]): ONE}
        raise NotUnderstood('vector factor %s' % at)

    def covered(self, l, extents, what, lp):
        """loop (var, lo, hi, step) against the accepted extent expressions: full -> True; provably short of it (starts after 0, stops a constant
        before the end) -> recorded in self.partial, the caller reports it; anything else is not understood"""
        var, lo, hi, step = l[:4]
        his = str(hi)
        for i_, pn_ in enumerate(self.pnames):
            if his.startswith('$%d->' % i_):
                his = pn_ + his[len('$%d' % i_):]           # the extractor writes parameters as $k
        full = str(lo) == '0' and step == 1 and (str(hi) in extents or his in extents)
        if full:
            return True
        short = None
        if step == 1 and isinstance(lo, Poly) and lo.is_const() and lo.const_value() > 0 and str(hi) in extents:
            short = 'starts at %s' % lo
        if step == 1 and str(lo) == '0':
            for e in extents:
                d = Poly.atom(e) - hi if isinstance(hi, Poly) else None
                if d is not None and d.is_const() and d.const_value() > 0:
                    short = 'stops at %s' % hi
        if short:
            self.partial.append((what, self.f.unit.where(lp), short))
            return True
        raise NotUnderstood('loop at %s does not cover the whole of %s' % (self.f.unit.where(lp), what))

    def loop(self, lp):
        ex = Extractor(self.prog, self.f)
        ex.locals_ok = True
        ex.acc = {}
        ex.opaque_scalars = True
        ex.allow_sub = True
        ex.ignore_out = self.ignore_out
        ex.track_old = True
        try:
            ex.stmt(lp, [], {}, {})
        except Unsupported as e:
            raise NotUnderstood('loop at %s: %s' % (self.f.unit.where(lp), e))
        before = {k_: dict(v_) for k_, v_ in self.vec.items()}
        wrote = set()
        for c in ex.contribs:
            # a temporary that kept the value a cell had before this loop overwrote it: resolved against the vector as it was when the loop started,
            # which is that value only if the loop has not written the vector twice
            olds = [a_ for a_ in c.term.atoms() if a_.startswith('OLD:')]
            if olds:
                ren = {}
                for a_ in olds:
                    vn = a_[4:].split('[')[0]
                    vn = vn[2:] if vn.startswith('L:') else vn
                    if vn not in before or list(wrote).count(vn) > 1:
                        raise NotUnderstood('a temporary holds an earlier value of %s' % a_[4:])
                    ren[a_] = Poly.atom(a_[4:])
                c.term = Rat(c.term.n.subst(ren), c.term.d.subst(ren))
                c._use_before = {a_[4:].split('[')[0][2:] if a_[4:].startswith('L:') else a_[4:].split('[')[0] for a_ in olds}
            else:
                c._use_before = set()
            swapped = {}
            for vn_ in c._use_before:
                if vn_ in self.vec:
                    swapped[vn_] = (self.vec[vn_], dict(before[vn_]))
                    self.vec[vn_] = swapped[vn_][1]
            try:
                arr = c.out[0]
                ext_name = None
                if len(c.out[1]) == 3 and not str(c.out[1][0]).startswith('@'):
                    # a cell of block k of a tensor:  T[k, i, j]  is cell [i, j] of the matrix named  T[k]
                    ext_name = '%s->m[%s]' % (arr[2:] if arr.startswith('L:') else arr, c.out[1][0])
                    arr = '%s[%s]' % (arr, c.out[1][0])
                    c.out = (arr, list(c.out[1][1:]))
                name = arr[2:] if arr.startswith('L:') else self.pnames[int(arr[1:])] if arr.startswith('$') and '->' not in arr and '[' not in arr else None
                oi_ = [str(x) for x in c.out[1]]
                lvs_ = {l[0]: l for l in c.loops}
                if name is not None and name in self.mat and c.mode == '=' and len(oi_) == 2 and sum(1 for x in oi_ if x in lvs_) == 1 and \
                        len(c.term.atoms()) == 1 and c.term.d == Poly.const(1):
                    # one row or one column of a local matrix is filled from a vector:  M[k][i] = v[i]  /  M[i][k] = v[i]
                    at_ = list(c.term.atoms())[0]
                    run_ = [x for x in oi_ if x in lvs_][0]
                    fixed_ = [x for x in oi_ if x not in lvs_][0]
                    if c.term.n == Poly.atom(at_) and at_.startswith('L:') and at_.count('[') == 1 and at_.endswith('[%s]' % run_) and \
                            str(lvs_[run_][1]) == '0' and lvs_[run_][3] == 1:
                        src_ = at_[2:].split('[')[0]
                        kind_ = 'row' if oi_[0] == fixed_ else 'col'
                        self.linestores.append((name, kind_, fixed_, src_, dict(self.v(src_)), str(lvs_[run_][2]), c.node))
                        self.mat[name] = {('M', name): ONE}        # from here on an opaque matrix whose rows / columns are the recorded vectors
                        continue
                    raise NotUnderstood('store into %s: %r' % (arr, c))
                if name is None or (name not in self.vec and name not in self.mat):
                    # a column of a result container:  OUT[i][c] = v[i]  for every i
                    oi = [str(x) for x in c.out[1]]
                    lvs = {l[0]: l for l in c.loops}
                    cellat = [a_ for a_ in c.term.atoms() if '@' in a_]
                    fac_ = None
                    if len(cellat) == 1 and len(oi) == 2:
                        co_ = c.term.n.coeff(cellat[0])
                        if co_ is not None and (co_ * Poly.atom(cellat[0])) == c.term.n:
                            fac_ = Rat(co_, c.term.d)              # OUT[i][c] = s * v[i]: the stored column is the scaled vector
                            smap_ = {}
                            for a_ in fac_.atoms():
                                if a_.startswith('S:'):
                                    if a_[2:] not in self.sc:
                                        raise NotUnderstood('scalar %s has no tracked value' % a_[2:])
                                    smap_[a_] = self.sc[a_[2:]]
                            fac_ = rsubst(fac_, smap_)
                    at = cellat
                    if c.mode == '=' and len(oi) == 2 and len(at) == 1 and fac_ is not None and \
                            at[0].startswith('L:') and at[0].count('[') == 1 and at[0].endswith('[%s]' % oi[0]) and oi[0] in lvs and \
                            lvs[oi[0]][3] == 1 and oi[1] not in lvs:
                        src = at[0][2:].split('[')[0]
                        ext = str(lvs[oi[0]][2]) if str(lvs[oi[0]][1]) == '0' else 'from %s to %s' % (lvs[oi[0]][1], lvs[oi[0]][2])
                        self.colstores.append((arr, oi[1], src, vscale(self.v(src), fac_), ext, c.node))
                        continue
                    raise NotUnderstood('store into %s: %r' % (arr, c))
                smap = {}
                for at in c.term.atoms():
                    if at.startswith('S:'):
                        if at[2:] not in self.sc:
                            raise NotUnderstood('scalar %s has no tracked value' % at[2:])
                        smap[at] = self.sc[at[2:]]
                lv = {l[0]: l for l in c.loops}
                if any(l[3] != 1 for l in c.loops):
                    raise NotUnderstood('loop at %s does not run in unit steps' % self.f.unit.where(lp))
                idx = [str(x) for x in c.out[1]]
                if len(idx) == 1 and name in self.vec and c.mode == '=' and len(c.term.atoms()) == 1 and c.term.d == Poly.const(1):
                    # whole-vector copy  v[i] = u[i]
                    at = list(c.term.atoms())[0]
                    srcname = at[2:].split('[')[0] if at.startswith('L:') else None
                    if idx[0] not in lv or c.term.n != Poly.atom(at):
                        raise NotUnderstood('vector store %r' % c)
                    if at.count('[') != 2 or str(lv[idx[0]][1]) != '0':
                        self.covered(lv[idx[0]], ('%s->size' % name, '%s->size' % srcname) + tuple(self.same_size.get(name, ())), name, lp)
                    if at.startswith('L:') and at.endswith('[%s]' % idx[0]) and at.count('[') == 1:
                        self.vec[name] = dict(self.v(at[2:].split('[')[0]))
                    elif at.count('[') == 2 and at.split('[')[1] == idx[0] + ']' and not at.startswith('L:') and at.split('[')[2][:-1] not in lv:
                        # a column of a matrix the routine reads:  v[i] = M[i][c]  -- an opaque base vector named after the column
                        self.vec[name] = {'%s[:,%s]' % (at.split('[')[0], at.split('[')[2][:-1]): ONE}
                    else:
                        raise NotUnderstood('%s is filled from %s, a source the interpreter does not know' % (name, at))
                    continue
                if len(idx) == 1 and name in self.vec and c.mode == '=':
                    # v[i] = v[i] / s   written out: the same scaling as  v[i] /= s
                    own = Poly.atom('L:%s[%s]' % (name, idx[0]))
                    if c.term.n.coeff('L:%s[%s]' % (name, idx[0])) is not None and (c.term.n.coeff('L:%s[%s]' % (name, idx[0])) * own) == c.term.n:
                        fac = Rat(c.term.n.coeff('L:%s[%s]' % (name, idx[0])), c.term.d)
                        if not any('@' in a_ or a_.startswith('L:') for a_ in fac.atoms()):
                            c.mode, c.term = '*=', fac
                if len(idx) == 1 and name in self.vec:
                    # whole-vector scaling  v[i] *= s   /   v[i] /= s
                    if idx[0] not in lv:
                        raise NotUnderstood('loop at %s does not cover the whole of %s' % (self.f.unit.where(lp), name))
                    self.covered(lv[idx[0]], ('%s->size' % name,) + tuple(self.same_size.get(name, ())), name, lp)
                    if any(not at.startswith('S:') and ('@' in at or at.startswith('L:')) for at in c.term.atoms()) or c.mode not in ('*=', '/='):
                        raise NotUnderstood('vector update %r' % c)
                    s = rsubst(c.term, smap)
                    if s.is_zero():
                        raise NotUnderstood('scaling by a value that is identically zero')
                    self.vec[name] = vscale(self.vec[name], s if c.mode == '*=' else ONE / s)
                    continue
                if len(idx) == 2 and name in self.mat and c.mode == '+=':
                    # rank-one update  M[i][j] += s * a[i] * b[j]
                    if any(i not in lv for i in idx):
                        raise NotUnderstood('loop at %s does not cover the whole of %s' % (self.f.unit.where(lp), name))
                    self.covered(lv[idx[0]], ('%s->row' % (ext_name or name),), name, lp)
                    self.covered(lv[idx[1]], ('%s->col' % (ext_name or name),), name, lp)
                    cells = [at for at in c.term.atoms() if not at.startswith('S:') and '@' in at]
                    if len(cells) != 2 or c.term.d.atoms() - set(smap):
                        raise NotUnderstood('matrix update %r' % c)
                    rowv = [at for at in cells if ('[%s]' % idx[0]) in at and ('[%s]' % idx[1]) not in at]
                    colv = [at for at in cells if ('[%s]' % idx[1]) in at and ('[%s]' % idx[0]) not in at]
                    if len(rowv) != 1 or len(colv) != 1:
                        raise NotUnderstood('matrix update %r' % c)
                    co = c.term.n.coeff(rowv[0])
                    co = co.coeff(colv[0]) if co is not None else None
                    if co is None or (Poly.atom(rowv[0]) * Poly.atom(colv[0]) * co) != c.term.n:
                        raise NotUnderstood('matrix update %r' % c)
                    s = rsubst(Rat(co, c.term.d), smap)
                    va_, vb_ = self.fibre(rowv[0], idx[0]), self.fibre(colv[0], idx[1])
                    M = dict(self.mat[name])
                    for ba, ca in va_.items():
                        for bb, cb in vb_.items():
                            key = ('outer', ba, bb)
                            x = M.get(key, ZERO) + s * ca * cb
                            if x.is_zero():
                                M.pop(key, None)
                            else:
                                M[key] = x
                    self.mat[name] = M
                    continue
                raise NotUnderstood('store %r' % c)
            finally:
                for vn_, (cur_, marker_) in swapped.items():
                    if self.vec.get(vn_) is marker_:
                        self.vec[vn_] = cur_                    # only read through the temporary: the current value stays
                    else:
                        wrote.add(vn_)

    def stmt(self, s0):
        s = strip(s0)
        k = s.get('kind')
        if k == 'NullStmt':
            return
        if k == 'DeclStmt':
            for d in kids(s):
                if d.get('kind') == 'VarDecl' and kids(d) and fe.is_float_type(d):
                    try:
                        self.sc[d.get('name')] = self.scalar(kids(d)[-1])
                    except NotUnderstood:
                        self.sc.pop(d.get('name'), None)          # e.g. the convergence measure: not a tracked quantity
            return
        if k == 'CompoundStmt':
            for x in kids(s):
                self.stmt(x)
            return
        if k == 'CallExpr':
            return self.call(s)
        if k == 'ForStmt':
            return self.loop(s)
        if k == 'BinaryOperator' and s.get('opcode') == '=':
            l, r = kids(s)
            l0 = strip(l)
            while l0.get('kind') == 'ParenExpr':
                l0 = strip(kids(l0)[0])
            if l0.get('kind') == 'DeclRefExpr':
                try:
                    self.sc[self.nm(l0)] = self.scalar(r)
                except NotUnderstood:
                    self.sc.pop(self.nm(l0), None)           # e.g. the convergence measure: untracked from here on (a later use is not understood)
                return
            if l0.get('kind') == 'ArraySubscriptExpr' and fe.is_float_type(l0):
                txt = self.f.unit.text(l0).replace(' ', '')
                if self.ignore_out and self.ignore_out(txt):
                    return
                self.cellstores.append((txt.split('->data')[0], txt.split('->data')[-1], self.scalar(r), s))
                return
            if l0.get('kind') == 'UnaryOperator' and l0.get('opcode') == '*':
                nm = self.nm(l0)
                self.sc['*' + nm] = self.scalar(r)
                self.out[nm] = ('s', self.sc['*' + nm])
                return
        if k == 'IfStmt':
            ks = kids(s)
            gk = guard_kind(self.f, ks[0]) if len(ks) == 2 and not any(
                m.get('kind') in ('BreakStmt', 'ContinueStmt', 'ReturnStmt') for m in walk(ks[1])) else None
            if gk is not None:
                lits, other = gk
                if other:
                    raise NotUnderstood('the null-component branch at %s is also taken when `%s`' % (self.f.unit.where(s), '`, `'.join(other)))
                for txt, v in lits:
                    self.thresholds.append((self.f.unit.where(s), txt, v))
                self.notes.append('%s: the branch taken only when a value is NaN (null latent variable) is not part of the regular path' % self.f.unit.where(s))
                return
        if k in ('UnaryOperator',) and s.get('opcode') in ('++', '--') and not fe.is_float_type(s):
            return
        raise NotUnderstood('statement %s at %s' % (k, self.f.unit.where(s)))


def exec_paths(state, stmts):
    """all paths through a loop body: returns (states falling through, states leaving through break)"""
    live, exits = [state], []
    for s0 in stmts:
        s = strip(s0)
        k = s.get('kind')
        nxt = []
        for st in live:
            if k == 'BreakStmt':
                exits.append(st)
                continue
            if k == 'ContinueStmt':
                continue
            if k == 'CompoundStmt':
                l2, e2 = exec_paths(st, kids(s))
                nxt += l2
                exits += e2
                continue
            if k == 'IfStmt' and not (len(kids(s)) == 2 and guard_kind(st.f, kids(s)[0]) is not None and
                                      not any(m.get('kind') in ('BreakStmt', 'ContinueStmt', 'ReturnStmt') for m in walk(kids(s)[1]))):
                ks = kids(s)
                ctext = st.f.unit.text(ks[0]).replace(' ', '')
                a = st.clone()
                a.path = getattr(st, 'path', []) + [ctext]
                l2, e2 = exec_paths(a, [ks[1]])
                nxt += l2
                exits += e2
                b = st.clone()
                b.path = getattr(st, 'path', []) + ['!(' + ctext + ')']
                if len(ks) > 2:
                    l2, e2 = exec_paths(b, [ks[2]])
                    nxt += l2
                    exits += e2
                else:
                    nxt.append(b)
                continue
            st.stmt(s)
            nxt.append(st)
        live = nxt
    return live, exits


def settled(st, u, v):
    """a mismatch between u and v is a verdict unless the state carries uninterpreted norms and both sides have the same base vectors"""
    return not getattr(st, 'imprecise', False) or set(u) != set(v)


def expand(u, defs):
    """replace unit(...) base vectors by the combination they normalise (divided by its uninterpreted norm)"""
    r = {}
    for b, c in u.items():
        if b in defs:
            r = vadd(r, expand(defs[b], defs), c / Rat(Poly.atom('|%s|' % vshow(defs[b]))))
        else:
            r = vadd(r, {b: ONE}, c)
    return r


def proportional(u, v, defs=None):
    if defs and (set(u) != set(v)):
        u, v = expand(u, defs), expand(v, defs)
    if set(u) != set(v) or not u:
        return False
    b0 = sorted(u)[0]
    return all((u[b] * v[b0]).same(v[b] * u[b0]) for b in u)


def report_thresholds(chk, rule, f, st):
    for w, txt, v in getattr(st, 'thresholds', []):
        chk.instance(rule, '%s %s: the component is replaced by zeros whenever `%s`' % (w, f.name, txt), 'refuted')
        chk.violation(Finding(rule, rel(f.file), f.name, 'threshold:%s' % txt.replace(' ', '')[:30], w,
                              '%s: the branch that returns a zero component is taken not only for a NaN / exactly zero value but whenever `%s` -- an absolute '
                              'threshold (%g) on a quantity that scales with the data, so for small-scale or nearly collinear data a genuine component is '
                              'dropped and the fit is no longer the least-squares fit' % (f.name, txt, v)))
    n = len(getattr(st, 'thresholds', []))
    st.thresholds = []
    return n


def report_partial(chk, rule, f, st, where):
    for what, w, how in getattr(st, 'partial', []):
        chk.instance(rule, '%s %s: the update of %s %s' % (w, f.name, what, how), 'refuted')
        chk.violation(Finding(rule, rel(f.file), f.name, 'partial:%s' % what, w,
                              '%s (%s): the loop at %s updates %s only in part (it %s), the rest keeps its previous content' % (f.name, where, w, what, how)))
    return bool(getattr(st, 'partial', []))


def latent_variable(chk, prog):
    R = chk.rule('PLS.latent-variable', 'LVCalc hands back p = unit(X\'t/t\'t), t*|X\'t/t\'t|, w*|X\'t/t\'t|, b = u\'t/t\'t for the final t, and deflates '
                 'X by t p\' and Y by b t q\' with the very vectors it hands back (exact arithmetic over a free vector algebra)')
    f = prog.funcs.get('LVCalc')
    if f is None or f.body is None:
        chk.broke('LVCalc not found')
        return None
    top = [strip(s) for s in kids(f.body)]
    wi = [i for i, s in enumerate(top) if s.get('kind') in ('WhileStmt', 'DoStmt', 'ForStmt') and
          any(n.get('kind') == 'CallExpr' and callee_name(n) in ('DVectorMatrixDotProduct', 'MatrixDVectorDotProduct') for n in walk(s))]
    if len(wi) != 1:
        chk.broke('LVCalc: the NIPALS iteration was not found as a single top-level loop (%d candidates)' % len(wi))
        return None
    loop = top[wi[0]]
    pn = [p['name'] for p in f.params]
    if len(pn) != 8:
        chk.broke('LVCalc no longer has 8 parameters')
        return None
    tl = Tail(prog, f)
    tl.params = set(pn)
    tl.pnames = pn
    Ri = chk.rule('PLS.iteration', 'what one NIPALS iteration leaves when it stops: t = X w for the very w it leaves (so that projecting with the stored '
                  'weights reproduces the scores), and for several responses q proportional to Y\'t and u = Y q / q\'q; for one response q = 1 and u untouched')
    # working copies: which local stands for which parameter (MatrixCopy(X, &X_), NewDVector(&t_, t->size))
    local_of = {}
    for s in top[:wi[0]]:
        if s.get('kind') == 'CallExpr':
            cn, a = callee_name(s), call_args(s)
            try:
                if cn == 'MatrixCopy' and len(a) == 2 and tl.nm(a[0]) in pn:
                    local_of[tl.nm(a[1])] = (tl.nm(a[0]), 'copy')
                if cn == 'NewDVector' and len(a) == 2:
                    t = f.unit.text(a[1]).replace(' ', '')
                    if t.endswith('->size') and t[:-6] in pn:
                        if any(v[0] == t[:-6] for v in local_of.values()):
                            local_of.setdefault(tl.nm(a[0]), ('~' + tl.nm(a[0]), 'zero'))     # a second vector of that size (the previous iterate)
                        else:
                            local_of.setdefault(tl.nm(a[0]), (t[:-6], 'zero'))
            except NotUnderstood:
                pass
    # state when the iteration is left: every vector the loop writes is an opaque base vector; one it never touches is still zero
    written = set()
    for n in walk(loop):
        if n.get('kind') == 'CallExpr':
            cn, a = callee_name(n), call_args(n)
            outs = {'DVectorMatrixDotProduct': [2], 'MatrixDVectorDotProduct': [2], 'MT_MatrixDVectorDotProduct': [2], 'DVectNorm': [1], 'DVectorSet': [0],
                    'DVectorCopy': [1], 'MatrixCopy': [1]}.get(cn)
            if outs is None:
                if cn in ('DVectorDVectorDotProd', 'DvectorModule', 'calcConvergence', 'printf', 'PrintDVector', 'PrintMatrix', 'puts'):
                    continue
                chk.broke('LVCalc: call to %s inside the iteration is not in the kernel table' % cn)
                return None
            for i in outs:
                try:
                    written.add(tl.nm(a[i]))
                except NotUnderstood:
                    pass
        if n.get('kind') in ('BinaryOperator', 'CompoundAssignOperator') and n.get('opcode', '').endswith('='):
            l = strip(kids(n)[0])
            for m in walk(l):
                if m.get('kind') == 'DeclRefExpr' and m['referencedDecl'].get('name') in local_of:
                    written.add(m['referencedDecl'].get('name'))
                    break
    role = {}
    for loc, (par, how) in local_of.items():
        if how == 'copy':
            if loc in written:
                chk.broke('LVCalc: the working copy %s is modified inside the iteration' % loc)
                return None
            tl.mat[loc] = {('M', par): ONE}
        elif loc in written:
            tl.vec[loc] = {par: ONE}              # the iterate the loop converged to, named after the parameter it is handed back through
        else:
            tl.vec[loc] = {}                      # allocated zeroed, never touched by the iteration
        role[loc] = par
    # a vector written before the loop and not inside it (the start column of u) is opaque too
    for s in top[:wi[0]]:
        for n in walk(s):
            if n.get('kind') in ('BinaryOperator', 'CompoundAssignOperator') and n.get('opcode', '').endswith('='):
                for m in walk(strip(kids(n)[0])):
                    if m.get('kind') == 'DeclRefExpr' and m['referencedDecl'].get('name') in tl.vec and m['referencedDecl'].get('name') not in written:
                        tl.vec[m['referencedDecl'].get('name')] = {role[m['referencedDecl'].get('name')]: ONE}
    # ---- one iteration, on every path that leaves the loop ------------------------------------------------------------
    Xn, Yn, tn, un, p_n, qn, wn, bn = pn
    loc = {par: l for l, (par, how) in local_of.items()}
    if any(x not in loc for x in (Xn, Yn, tn, un, qn, wn, p_n)):
        chk.broke('LVCalc: the working copies of %s were not all found' % ', '.join(pn[:7]))
        return None
    try:
        st0 = tl.clone()
        body = kids(loop)[-1]
        live, exits = exec_paths(st0, [body])
    except NotUnderstood as e:
        chk.broke('LVCalc: the iteration is not understood: %s' % e)
        return None
    if not exits:
        chk.broke('LVCalc: no path leaves the iteration through a break')
        return None
    for ex_ in exits:
        wv, tv, qv, uv = (ex_.vec[loc[x]] for x in (wn, tn, qn, un))
        path = ' && '.join(getattr(ex_, 'path', []))[:160]
        probs = []
        t_want = ex_.prod(ex_.mat[loc[Xn]], wv, False)
        if not vsame(tv, t_want) and not settled(ex_, tv, t_want):
            chk.broke('LVCalc: t = X w cannot be decided on path %s (norm of a combination of vectors)' % path)
        elif not vsame(tv, t_want):
            probs.append(('t', 'the score is %s, not X w = %s for the weight vector w = %s it leaves' % (vshow(tv)[:200], vshow(t_want)[:200], vshow(wv)[:120])))
        if set(qv) == {'1'}:
            if not qv['1'].same(ONE):
                probs.append(('q', 'with one response the response loading is the constant %r, not 1' % qv['1']))
            if not vsame(uv, {un: ONE}):
                probs.append(('u', 'with one response the response score is changed to %s' % vshow(uv)[:200]))
            kindp = 'one response'
        else:
            q_dir = ex_.prod(ex_.mat[loc[Yn]], tv, True)
            if not proportional(qv, q_dir, ex_.defs) and not settled(ex_, qv, q_dir):
                chk.broke('LVCalc: q ~ Y\'t cannot be decided on path %s (norm of a combination of vectors)' % path)
            elif not proportional(qv, q_dir, ex_.defs):
                probs.append(('q', 'the response loading is %s, not proportional to Y\'t = %s' % (vshow(qv)[:200], vshow(q_dir)[:200])))
            elif vdot(qv, qv).is_zero():
                probs.append(('q', 'the response loading is identically zero'))
            else:
                u_want = vscale(ex_.prod(ex_.mat[loc[Yn]], qv, False), ONE / vdot(qv, qv))
                if not vsame(uv, u_want) and not settled(ex_, uv, u_want):
                    chk.broke('LVCalc: u = Y q / q\'q cannot be decided on path %s (norm of a combination of vectors)' % path)
                elif not vsame(uv, u_want):
                    probs.append(('u', 'the response score is %s, not Y q / q\'q = %s' % (vshow(uv)[:200], vshow(u_want)[:200])))
            kindp = 'several responses'
        report_thresholds(chk, Ri, f, ex_)
        if report_partial(chk, Ri, f, ex_, 'iteration'):
            ex_.partial = []
            continue
        if not probs:
            chk.instance(Ri, '%s LVCalc (%s; path %s): t = X w, %s' % (f.unit.where(loop), kindp, path,
                         'q = 1, u untouched' if kindp == 'one response' else 'q ~ Y\'t, u = Y q / q\'q'))
        for key, msg in probs:
            chk.instance(Ri, '%s LVCalc (%s; path %s): %s' % (f.unit.where(loop), kindp, path, msg), 'refuted')
            chk.violation(Finding('PLS.iteration', rel(f.file), f.name, 'iterate:%s:%s' % (key, kindp.split()[0]), f.unit.where(loop),
                                  'LVCalc, when the iteration stops (%s; path %s): %s' % (kindp, path, msg)))
    try:
        for s in top[wi[0] + 1:]:
            tl.stmt(s)
    except NotUnderstood as e:
        chk.broke('LVCalc: the statements after the iteration are not understood: %s' % e)
        return None
    report_partial(chk, R, f, tl, 'after the iteration')
    report_thresholds(chk, R, f, tl)
    # ---- the definition (steps 9-14 of the documented algorithm), in the same algebra ------------------------------------
    T0, U0, W0, Q0 = ({x: ONE} for x in (tn, un, wn, qn))
    X0 = {('M', Xn): ONE}
    Y0 = {('M', Yn): ONE}
    xt = '%s\'*%s' % (Xn, tn)
    praw = {xt: ONE / vdot(T0, T0)}                                   # step 9   p' = t'X / t't
    m = (ONE / vdot(T0, T0)) * N(xt)                                  #          |p|
    want_p = {xt: ONE / N(xt)}                                        # step 10  p / |p|
    want_t = vscale(T0, m)                                            # step 11  t |p|
    want_w = vscale(W0, m)                                            # step 12  w |p|
    want_b = vdot(U0, want_t) / vdot(want_t, want_t)                  # step 13  b = u't / t't
    want_X = dict(X0)
    want_X[('outer', tn, xt)] = ZERO - m / N(xt)                      # step 14  X - t p'
    want_Y = dict(Y0)
    want_Y[('outer', tn, qn)] = ZERO - want_b * m                     #          Y - b t q'
    wanted = [(tn, 'v', want_t, 'the score  t * |X\'t/t\'t|'), (p_n, 'v', want_p, 'the loading  X\'t/t\'t  scaled to unit length'),
              (wn, 'v', want_w, 'the weight  w * |X\'t/t\'t|'), (un, 'v', U0, 'the response score u of the last iteration'),
              (qn, 'v', Q0, 'the response loading q of the last iteration'), (bn, 's', want_b, 'b = u\'t / t\'t with the final t'),
              (Xn, 'm', want_X, 'X - t p\' with the t and p handed back'), (Yn, 'm', want_Y, 'Y - b t q\' with the b, t, q handed back')]
    for par, kind, want, text in wanted:
        got = tl.out.get(par)
        if got is None:
            chk.instance(R, '%s LVCalc: nothing is handed back through %s' % (f.where, par), 'refuted')
            chk.violation(Finding('PLS.latent-variable', rel(f.file), f.name, 'no-output:%s' % par, f.where,
                                  'LVCalc hands nothing back through its parameter %s (expected %s)' % (par, text)))
            continue
        ok = got[0] == kind and {'v': vsame, 'm': msame, 's': lambda a, b: a.same(b)}[kind](got[1], want)
        if not ok and getattr(tl, 'imprecise', False) and got[0] == kind and (kind == 's' or set(got[1]) == set(want)):
            chk.broke('LVCalc: %s cannot be decided (norm of a combination of vectors)' % text)
            continue
        shown = {'v': vshow, 'm': mshow, 's': repr}[kind](got[1]) if got[0] == kind else '?'
        if ok:
            chk.instance(R, '%s LVCalc: %s = %s  [%s]' % (f.where, par, text, shown[:160]))
        else:
            chk.instance(R, '%s LVCalc: %s is %s, not %s' % (f.where, par, shown[:200], text), 'refuted')
            chk.violation(Finding('PLS.latent-variable', rel(f.file), f.name, 'output:%s' % par, f.where,
                                  'LVCalc hands back through %s the value %s, which is not %s (%s) in exact arithmetic' %
                                  (par, shown[:300], text, {'v': vshow, 'm': mshow, 's': repr}[kind](want)[:300])))
    chk.extra.setdefault('pls', {})['lvcalc_notes'] = sorted(set(tl.notes))
    return dict(zip(('X', 'Y', 't', 'u', 'p', 'q', 'w', 'b'), range(8)))


ROLE_FIELD = {'t': 'xscores', 'u': 'yscores', 'p': 'xloadings', 'w': 'xweights', 'q': 'yloadings'}


def store(chk, prog, roles):
    R = chk.rule('PLS.store', 'PLS() stores each vector LVCalc hands back in the model field of the same role (t: xscores, u: yscores, p: xloadings, '
                 'w: xweights, q: yloadings), whole, in the column of the current latent variable, and appends b to model->b')
    f = prog.funcs.get('PLS')
    if f is None or f.body is None:
        chk.broke('PLS not found')
        return
    calls = [n for n in walk(f.body) if n.get('kind') == 'CallExpr' and callee_name(n) == 'LVCalc']
    if len(calls) != 1:
        chk.broke('PLS: %d calls of LVCalc' % len(calls))
        return
    a = call_args(calls[0])
    tl = Tail(prog, f)
    try:
        arg = {r: tl.nm(a[i]) for r, i in roles.items()}
    except (NotUnderstood, IndexError) as e:
        chk.broke('PLS: arguments of LVCalc not understood: %s' % e)
        return
    # the loop over latent variables that contains the call
    outer = None
    for n in walk(f.body):
        if n.get('kind') == 'ForStmt' and any(m is calls[0] for m in walk(n)):
            outer = n
            break
    if outer is None:
        chk.broke('PLS: LVCalc is not called from a loop over the latent variables')
        return
    ex = Extractor(prog, f)
    ex.locals_ok = True
    ex.acc = {}
    ex.opaque_scalars = True
    skipped = []

    inner = []

    def collect(n, top=True):
        for c in kids(n):
            c0 = strip(c)
            if c0.get('kind') == 'ForStmt':
                inner.append(c0)
            elif c0.get('kind') in ('CompoundStmt', 'IfStmt'):
                collect(c0)
    collect(strip(kids(outer)[-1]) if strip(kids(outer)[-1]).get('kind') != 'CompoundStmt' else kids(outer)[-1])
    lvvar = None
    for n in walk(kids(outer)[0] if kids(outer) else outer):
        pass
    # the loop variable of the outer loop
    from . import flow
    try:
        hdr = ex.loop_header(outer) if hasattr(ex, 'loop_header') else None
    except Exception:
        hdr = None
    contribs = []
    for lp in inner:
        e2 = Extractor(prog, f)
        e2.locals_ok = True
        e2.acc = {}
        try:
            e2.stmt(outer_wrap(outer, lp), [], {}, {}) if False else e2.stmt(lp, [], {}, {})
        except Unsupported as e:
            skipped.append('%s: %s' % (f.unit.where(lp), e))
            continue
        contribs += [(e2, c) for c in e2.contribs]
    seen = {}
    for e2, c in contribs:
        arr = c.out[0]
        if '->' not in arr:
            continue
        field = arr.split('->', 1)[1]
        at = list(c.term.atoms())
        if c.mode != '=' or len(at) != 1 or c.term.n != Poly.atom(at[0]) or c.term.d != Poly.const(1) or not at[0].startswith('L:'):
            continue
        src = at[0][2:].split('[')[0]
        sidx = at[0].split('[', 1)[1][:-1]
        oidx = [str(x) for x in c.out[1]]
        seen.setdefault(field, []).append((src, sidx, oidx, c))
    pcname = None
    for field_role, field in ROLE_FIELD.items():
        want_src = arg[field_role]
        got = seen.get(field, [])
        if not got:
            chk.broke('PLS: no cell store into model->%s was recognised (%s)' % (field, '; '.join(skipped)[:200]))
            continue
        for src, sidx, oidx, c in got:
            lv = {l[0]: l for l in c.loops}
            pair = {'t': 'u', 'u': 't', 'p': 'w', 'w': 'p'}.get(field_role)          # same length by construction in PLS()
            whole = len(oidx) == 2 and oidx[0] == sidx and sidx in lv and str(lv[sidx][1]) == '0' and lv[sidx][3] == 1 and \
                str(lv[sidx][2]) in ('%s->size' % src, '%s->size' % want_src) + (('%s->size' % arg[pair],) if pair else ())
            col = oidx[1] if len(oidx) == 2 else None
            if src == want_src and whole and col is not None and not col.startswith('@') and not col.lstrip('-').isdigit():
                pcname = pcname or col
                if col != pcname:
                    whole = False
            if src == want_src and whole:
                chk.instance(R, '%s PLS: model->%s[:, %s] = %s (role %s of LVCalc)' % (f.unit.where(c.node), field, col, src, field_role))
            else:
                chk.instance(R, '%s PLS: model->%s receives %s[%s] at [%s], not the whole of %s in the current column' %
                             (f.unit.where(c.node), field, src, sidx, ', '.join(oidx), want_src), 'refuted')
                chk.violation(Finding('PLS.store', rel(f.file), f.name, 'field:%s' % field, f.unit.where(c.node),
                                      'PLS stores %s[%s] into model->%s[%s]; the %s vector LVCalc hands back is %s and it belongs, whole, in the column of the '
                                      'current latent variable' % (src, sidx, field, ', '.join(oidx), field_role, want_src)))
    # b
    apps = [n for n in walk(outer) if n.get('kind') == 'CallExpr' and callee_name(n) == 'DVectorAppend']
    okb = [n for n in apps if f.unit.text(call_args(n)[0]).replace(' ', '').strip('()').endswith('->b') and
           f.unit.text(call_args(n)[1]).strip() == arg['b']]
    if len(okb) == 1:
        chk.instance(R, '%s PLS: model->b gets the b of LVCalc appended once per latent variable' % f.unit.where(okb[0]))
    else:
        chk.instance(R, '%s PLS: model->b is not appended the b of LVCalc exactly once per latent variable' % f.where, 'refuted')
        chk.violation(Finding('PLS.store', rel(f.file), f.name, 'field:b', f.where,
                              'inside the loop over latent variables, model->b is appended %d times with the coefficient LVCalc computed (%s); expected once' %
                              (len(okb), arg['b'])))


def outer_wrap(outer, lp):
    return lp


def predictor(chk, prog):
    R = chk.rule('PLS.predictor', 'PLSYPredictor: y[i][j] = (sum over lv < nlv of b[lv]*t[i][lv]*q[j][lv]) * yscale[j] + ymean[j]: the sum over exactly the '
                 'first nlv latent variables, the scaling applied before the shift, both indexed by the response column')
    f = prog.funcs.get('PLSYPredictor')
    if f is None or f.body is None:
        chk.broke('PLSYPredictor not found')
        return
    pn = [p['name'] for p in f.params]
    loops = []

    def collect(n, guards):
        for c in kids(n):
            c0 = strip(c)
            k = c0.get('kind')
            if k == 'ForStmt':
                loops.append((c0, list(guards)))
            elif k == 'CompoundStmt':
                collect(c0, guards)
            elif k == 'IfStmt':
                ks = kids(c0)
                for br in ks[1:]:
                    if any(m.get('kind') == 'ForStmt' for m in walk(br)):
                        if len(ks) > 2:
                            raise NotUnderstood('two-armed conditional around the loops at %s' % f.unit.where(c0))
                        collect({'inner': [br]} if False else _as_block(br), guards + [f.unit.text(ks[0]).replace(' ', '')])
    try:
        collect(f.body, [])
    except NotUnderstood as e:
        chk.broke('PLSYPredictor: %s' % e)
        return
    ex = Extractor(prog, f)
    ex.locals_ok = True
    ex.acc = {}
    ex.opaque_scalars = True
    ex.allow_sub = True
    seq = []
    try:
        for lp, guards in loops:
            n0 = len(ex.contribs)
            ex.stmt(lp, [], {}, {})
            for c in ex.contribs[n0:]:
                seq.append((c, guards))
    except Unsupported as e:
        chk.broke('PLSYPredictor: loops not understood: %s' % e)
        return
    yarr = '$%d' % 3
    ys = [(c, g) for c, g in seq if c.out[0] == yarr]
    if len(ys) != 3 or len(ys) != len(seq):
        chk.broke('PLSYPredictor: expected three updates of the result (sum, scale, shift), found %d of %d stores' % (len(ys), len(seq)))
        return
    A = Poly.atom
    (c1, g1), (c2, g2), (c3, g3) = ys
    problems = []
    # 1. the sum
    lv1 = {l[0]: l for l in c1.loops}
    i1, j1 = [str(x) for x in c1.out[1]]
    lvv = [v for v in lv1 if v not in (i1, j1)]
    want = None
    if len(lvv) == 1:
        L = lvv[0]
        want = Rat(A('$0[%s][%s]' % (i1, L)) * A('$1->b[%s]' % L) * A('$1->yloadings[%s][%s]' % (j1, L)))
    if c1.mode != '+=' or want is None or not c1.term.same(want):
        problems.append(('sum', c1, 'the accumulated term is %r, not b[lv]*t[i][lv]*q[j][lv]' % c1.term))
    else:
        l = lv1[lvv[0]]
        if str(l[1]) != '0' or l[3] != 1 or str(l[2]) != '$2':
            problems.append(('sum-range', c1, 'the sum runs over lv in [%s, %s) step %s, not over the first nlv latent variables' % (l[1], l[2], l[3])))
        # the result is resized to rows(tscore) x rows(yloadings) first: either name of an extent is the same number
        ROWS = ('$0->row', '$3->row')
        COLS = ('$1->yloadings->row', '$3->col')
        if str(lv1[i1][1]) != '0' or str(lv1[i1][2]) not in ROWS or str(lv1[j1][1]) != '0' or str(lv1[j1][2]) not in COLS:
            problems.append(('sum-cells', c1, 'the sum is not stored for every object and every response (loops over [%s, %s) x [%s, %s))' %
                             (lv1[i1][1], lv1[i1][2], lv1[j1][1], lv1[j1][2])))
    # zeroed start: the result is resized (zero-filled) before
    if not zero_filled_first(f, pn[3], c1.node):
        problems.append(('start', c1, 'the result is not zero-filled (ResizeMatrix, unconditionally, before the loop) when the sum is accumulated into it: '
                         'an output that already has the right shape keeps its old content'))
    # 2. scale, 3. shift
    def colwise(c, field, mode):
        idx = [str(x) for x in c.out[1]]
        if len(idx) != 2:
            return 'not a cell update'
        lv = {l[0]: l for l in c.loops}
        wantt = Rat(A('$1->%s[%s]' % (field, idx[1])))
        if c.mode != mode or not c.term.same(wantt):
            return 'the update is `%s %r`, not `%s %s[j]` with j the response column' % (c.mode, c.term, mode, field)
        if idx[0] not in lv or str(lv[idx[0]][1]) != '0' or str(lv[idx[0]][2]) not in ('$3->row', '$0->row'):
            return 'not applied to every object'
        if idx[1] not in lv or str(lv[idx[1]][1]) != '0' or str(lv[idx[1]][2]) not in ('$1->ycolaverage->size', '$1->ycolscaling->size', '$1->yloadings->row', '$3->col'):
            return 'not applied to every response column'
        return None
    m2 = colwise(c2, 'ycolscaling', '*=')
    m3 = colwise(c3, 'ycolaverage', '+=')
    if m2 is not None and m3 is not None and colwise(c2, 'ycolaverage', '+=') is None and colwise(c3, 'ycolscaling', '*=') is None:
        # per column the order matters: with the shift first the result is (sum + mean) * scale
        same_col_loop = c2.loops and c3.loops and c2.loops[0][0] == c3.loops[0][0]
        problems.append(('order', c2, 'the mean is added before the scaling is applied: the result is (sum + ymean[j]) * yscale[j]'))
    else:
        if m2 is not None:
            problems.append(('scale', c2, m2))
        if m3 is not None:
            problems.append(('shift', c3, m3))
    if not problems:
        chk.instance(R, '%s PLSYPredictor: sum over lv in [0, nlv) of b[lv]*t[i][lv]*q[j][lv] into the zero-filled result' % f.unit.where(c1.node))
        chk.instance(R, '%s PLSYPredictor: then y[i][j] *= ycolscaling[j]  (under %s)' % (f.unit.where(c2.node), ' && '.join(g2) or 'no condition'))
        chk.instance(R, '%s PLSYPredictor: then y[i][j] += ycolaverage[j]  (under %s)' % (f.unit.where(c3.node), ' && '.join(g3) or 'no condition'))
    for key, c, msg in problems:
        chk.instance(R, '%s PLSYPredictor: %s' % (f.unit.where(c.node), msg), 'refuted')
        chk.violation(Finding('PLS.predictor', rel(f.file), f.name, key, f.unit.where(c.node), 'PLSYPredictor: ' + msg))
    # guards: the shift may only depend on a centring having been recorded, the scaling on a scaling having been recorded
    for c, g, field in ((c2, g2, 'ycolscaling'), (c3, g3, 'ycolaverage')):
        bad = [x for x in g if 'ycolaverage->size>0' not in x and 'ycolscaling->size>0' not in x]
        if bad:
            chk.broke('PLSYPredictor: the back-transform at %s is under a condition that is not understood: %s' % (f.unit.where(c.node), bad))


def g_text(f, n):
    return f.unit.text(n).replace(' ', '')


def zero_filled_first(f, name, node):
    """ResizeMatrix(name, ..) is a top-level statement of the function body (on every path) that precedes the top-level statement containing `node`"""
    top = [strip(s) for s in kids(f.body)]
    pos_node = [i for i, s in enumerate(top) if any(m is node for m in walk(s))]
    pos_rz = [i for i, s in enumerate(top) if s.get('kind') == 'CallExpr' and callee_name(s) == 'ResizeMatrix' and
              f.unit.text(call_args(s)[0]).strip() == name]
    return bool(pos_node and pos_rz and min(pos_rz) < pos_node[0])


def _as_block(n):
    n0 = strip(n)
    if n0.get('kind') == 'CompoundStmt':
        return n0
    return {'kind': 'CompoundStmt', 'inner': [n]}


def score_predictor(chk, prog):
    R = chk.rule('PLS.score-predictor', 'PLSScorePredictor: for every latent variable lv < nlv the score is stored as column lv and the projected block is '
                 'deflated by  t * (column lv of the stored loadings)\'  before the next one')
    f = prog.funcs.get('PLSScorePredictor')
    if f is None or f.body is None:
        chk.broke('PLSScorePredictor not found')
        return
    top = [strip(s) for s in walk(f.body) if strip(s).get('kind') == 'ForStmt']
    outer = None
    for lp in top:
        if any(n.get('kind') == 'CallExpr' and callee_name(n) in ('MatrixDVectorDotProduct', 'MT_MatrixDVectorDotProduct') for n in walk(lp)):
            outer = lp
            break
    if outer is None:
        chk.broke('PLSScorePredictor: the loop over latent variables was not found')
        return
    ex = Extractor(prog, f)
    ex.locals_ok = True
    ex.acc = {}
    ex.opaque_scalars = True
    ex.allow_sub = True
    try:
        ex.stmt(outer, [], {}, {})
    except Unsupported as e:
        chk.broke('PLSScorePredictor: loops not understood: %s' % e)
        return
    # the projection call: which local is the block, the weight, the score
    pc = [n for n in walk(outer) if n.get('kind') == 'CallExpr' and callee_name(n) in ('MatrixDVectorDotProduct', 'MT_MatrixDVectorDotProduct')]
    tl = Tail(prog, f)
    try:
        Xn, wn, tn = (tl.nm(x) for x in call_args(pc[0]))
    except NotUnderstood as e:
        chk.broke('PLSScorePredictor: %s' % e)
        return
    A = Poly.atom
    defl = [c for c in ex.contribs if c.out[0] == 'L:' + Xn]
    st = [c for c in ex.contribs if c.out[0] == '$3']
    wl = [c for c in ex.contribs if c.out[0] == 'L:' + wn]
    ok = True

    def lvof(c):
        return c.loops[0][0] if c.loops else None
    if len(defl) != 1 or len(st) != 1 or len(wl) != 1:
        chk.broke('PLSScorePredictor: expected one weight copy, one score store and one deflation, found %d/%d/%d' % (len(wl), len(st), len(defl)))
        return
    d, s_, w_ = defl[0], st[0], wl[0]
    L = lvof(d)
    l0 = d.loops[0]
    if str(l0[1]) != '0' or l0[3] != 1 or str(l0[2]) != '$2':
        ok = False
        chk.instance(R, '%s PLSScorePredictor: the latent variables run over [%s, %s), not the first nlv' % (f.unit.where(outer), l0[1], l0[2]), 'refuted')
        chk.violation(Finding('PLS.score-predictor', rel(f.file), f.name, 'range', f.unit.where(outer),
                              'PLSScorePredictor: the loop over latent variables covers [%s, %s) step %s instead of the first nlv' % (l0[1], l0[2], l0[3])))
    i_, j_ = [str(x) for x in d.out[1]]
    want = Rat(Poly.const(0) - A('$1->xloadings[%s][%s]' % (j_, L)) * A('L:%s[%s]' % (tn, i_)))
    lv = {l[0]: l for l in d.loops}
    ROWS_ = ('%s->row' % Xn, '$0->row', '%s->size' % tn, '$3->row')
    COLS_ = ('%s->col' % Xn, '$0->col', '$1->xloadings->row', '$1->xweights->row', '%s->size' % wn)
    if d.mode != '+=' or not d.term.same(want) or str(lv[i_][2]) not in ROWS_ or str(lv[j_][2]) not in COLS_ or str(lv[i_][1]) != '0' or str(lv[j_][1]) != '0':
        ok = False
        chk.instance(R, '%s PLSScorePredictor: the deflation is %r' % (f.unit.where(d.node), d), 'refuted')
        chk.violation(Finding('PLS.score-predictor', rel(f.file), f.name, 'deflation', f.unit.where(d.node),
                              'PLSScorePredictor: the projected block is updated by %r, not X[i][j] -= t[i] * xloadings[j][lv] for every cell' % d))
    si = [str(x) for x in s_.out[1]]
    if s_.mode != '=' or len(si) != 2 or si[1] != lvof(s_) or not s_.term.same(Rat(A('L:%s[%s]' % (tn, si[0])))):
        ok = False
        chk.instance(R, '%s PLSScorePredictor: the score store is %r' % (f.unit.where(s_.node), s_), 'refuted')
        chk.violation(Finding('PLS.score-predictor', rel(f.file), f.name, 'store', f.unit.where(s_.node),
                              'PLSScorePredictor: the score is stored by %r, not as column lv of the result' % s_))
    wi_ = [str(x) for x in w_.out[1]]
    if w_.mode != '=' or len(wi_) != 1 or not w_.term.same(Rat(A('$1->xweights[%s][%s]' % (wi_[0], lvof(w_))))):
        ok = False
        chk.instance(R, '%s PLSScorePredictor: the weight vector is %r' % (f.unit.where(w_.node), w_), 'refuted')
        chk.violation(Finding('PLS.score-predictor', rel(f.file), f.name, 'weight', f.unit.where(w_.node),
                              'PLSScorePredictor: the weight vector is filled by %r, not with column lv of the stored weights' % w_))
    # the projection kernel accumulates: the score vector has to be zero when it is called
    rs = [c for c in ex.contribs if c.out[0] == 'L:' + tn]
    if not (len(rs) == 1 and rs[0].mode == '=' and rs[0].term.is_zero() and len(rs[0].out[1]) == 1 and rs[0].loops and
            str(rs[0].loops[-1][1]) == '0' and str(rs[0].loops[-1][2]) in ('%s->size' % tn, '%s->row' % Xn)):
        rz = [n for n in walk(outer) if n.get('kind') == 'CallExpr' and callee_name(n) == 'DVectorSet' and g_text(f, call_args(n)[0]) == tn and
              g_text(f, call_args(n)[1]).rstrip('f.0') in ('0', '')]
        if not rz:
            ok = False
            chk.instance(R, '%s PLSScorePredictor: the score vector %s is not reset to zero for each latent variable' % (f.unit.where(outer), tn), 'refuted')
            chk.violation(Finding('PLS.score-predictor', rel(f.file), f.name, 'reset', f.unit.where(outer),
                                  'PLSScorePredictor: MatrixDVectorDotProduct adds into its output, and the score vector %s is not set to zero again for '
                                  'each latent variable (stores found: %r)' % (tn, rs)))
    # statement order inside one latent variable: weight copy < projection < deflation
    pos = {id(n): k for k, n in enumerate(walk(outer))}
    order = [pos.get(id(w_.node), -1), pos.get(id(pc[0]), -1), pos.get(id(d.node), -1)]
    if -1 not in order and order != sorted(order):
        ok = False
        chk.instance(R, '%s PLSScorePredictor: weight copy, projection and deflation are out of order' % f.unit.where(outer), 'refuted')
        chk.violation(Finding('PLS.score-predictor', rel(f.file), f.name, 'order', f.unit.where(outer),
                              'PLSScorePredictor: within one latent variable the weight copy, the projection and the deflation do not follow each other in that order'))
    if ok:
        chk.instance(R, '%s PLSScorePredictor: w = xweights[:, lv]; t = X w; scores[:, lv] = t; X -= t xloadings[:, lv]\'  for lv in [0, nlv)'
                     % f.unit.where(outer))


def all_lv(chk, prog):
    R = chk.rule('PLS.all-lv', 'PLSYPredictorAllLV: block lv of the result (columns n_y*lv .. n_y*lv+n_y-1) is the prediction with lv+1 latent variables, '
                 'for lv = 0 .. size(b)-1, from the scores PLSScorePredictor projects with all latent variables')
    f = prog.funcs.get('PLSYPredictorAllLV')
    if f is None or f.body is None:
        chk.broke('PLSYPredictorAllLV not found')
        return
    A = Poly.atom
    outer = None
    for n in walk(f.body):
        if n.get('kind') == 'ForStmt' and any(m.get('kind') == 'CallExpr' and callee_name(m) == 'PLSYPredictor' for m in walk(n)):
            outer = n
            break
    if outer is None:
        chk.broke('PLSYPredictorAllLV: no loop calling PLSYPredictor')
        return
    ex = Extractor(prog, f)
    ex.locals_ok = True
    ex.acc = {}
    try:
        ex.stmt(outer, [], {}, {})
    except Unsupported as e:
        chk.broke('PLSYPredictorAllLV: loop not understood: %s' % e)
        return
    call = [m for m in walk(outer) if m.get('kind') == 'CallExpr' and callee_name(m) == 'PLSYPredictor'][0]
    a = call_args(call)
    tmp = exprs.path_of(a[3], byname=True)
    st = [c for c in ex.contribs if c.out[0] == '$3']
    if len(st) != 1 or not st[0].loops:
        chk.broke('PLSYPredictorAllLV: expected one store into the result, found %d' % len(st))
        return
    c = st[0]
    L = c.loops[0]
    lvn = L[0].lstrip('@')
    # the locals that stand for counts
    defs = {}
    for n in walk(f.body):
        if n.get('kind') == 'BinaryOperator' and n.get('opcode') == '=':
            l, r = kids(n)
            l0 = strip(l)
            if l0.get('kind') == 'DeclRefExpr':
                defs.setdefault(l0['referencedDecl'].get('name'), []).append(f.unit.text(r).replace(' ', ''))
    probs = []
    hi = str(L[2])
    if str(L[1]) != '0' or L[3] != 1 or not (hi == '$1->b->size' or defs.get(hi) == ['model->b->size']):
        probs.append(('range', 'the blocks run over [%s, %s) with %s = %s, not over every latent variable of the model' % (L[1], hi, hi, defs.get(hi))))
    try:
        third = exprs.to_poly(a[2], byname=True)
    except Exception:
        third = None
    if third != A(lvn) + 1:
        probs.append(('count', 'block %s is predicted with %s latent variables, not %s+1' % (lvn, f.unit.text(a[2]), lvn)))
    i_, col = c.out[1]
    lv_ = {l[0]: l for l in c.loops}
    jv = [v for v in lv_ if v not in (L[0], str(i_))]
    ny = str(lv_[jv[0]][2]) if len(jv) == 1 else None
    ok_store = c.mode == '=' and ny is not None and (ny == '$1->yloadings->row' or defs.get(ny) == ['model->yloadings->row']) and \
        col == A(jv[0]) + A(L[0]) * A(ny) and c.term.same(Rat(A('L:%s[%s][%s]' % (tmp, i_, jv[0])))) and str(lv_[str(i_)][2]) == '$0->row' and \
        str(lv_[str(i_)][1]) == '0' and str(lv_[jv[0]][1]) == '0'
    if not ok_store:
        probs.append(('store', 'the block store is %r, not y[i][n_y*lv + j] = predicted[i][j] for every object i and response j' % c))
    sp = [m for m in walk(f.body) if m.get('kind') == 'CallExpr' and callee_name(m) == 'PLSScorePredictor']
    try:
        third_ok = len(sp) == 1 and str(ex.shape_poly(call_args(sp[0])[2], {})) in (hi, '$1->b->size') 
    except Exception:
        third_ok = len(sp) == 1 and f.unit.text(call_args(sp[0])[2]).strip() == hi
    if len(sp) != 1 or not third_ok or exprs.path_of(call_args(sp[0])[3], byname=True) != exprs.path_of(a[0], byname=True):
        probs.append(('scores', 'the scores given to PLSYPredictor are not the ones PLSScorePredictor projects with all %s latent variables' % hi))
    if not probs:
        chk.instance(R, '%s PLSYPredictorAllLV: y[:, n_y*lv + j] = PLSYPredictor(scores, model, lv+1)[:, j], lv in [0, size(b))' % f.unit.where(c.node))
    for key, msg in probs:
        chk.instance(R, '%s PLSYPredictorAllLV: %s' % (f.unit.where(c.node), msg), 'refuted')
        chk.violation(Finding('PLS.all-lv', rel(f.file), f.name, key, f.unit.where(c.node), 'PLSYPredictorAllLV: ' + msg))


def blocks(chk, prog):
    R = chk.rule('PLS.blocks', 'PLS() centres/scales X and Y into the statistics of the model that the predictors read back (xcolaverage/xcolscaling, '
                 'ycolaverage/ycolscaling), runs LVCalc on those two blocks, and PLSScorePredictor applies the X statistics of the model')
    f = prog.funcs.get('PLS')
    g = prog.funcs.get('PLSScorePredictor')
    if f is None or g is None:
        chk.broke('PLS / PLSScorePredictor not found')
        return
    def T(n):
        return f.unit.text(n).replace(' ', '').replace('(', '').replace(')', '')
    pre = [n for n in walk(f.body) if n.get('kind') == 'CallExpr' and callee_name(n) == 'MatrixPreprocess']
    lvc = [n for n in walk(f.body) if n.get('kind') == 'CallExpr' and callee_name(n) == 'LVCalc']
    if len(pre) != 2 or len(lvc) != 1:
        chk.broke('PLS: expected two MatrixPreprocess calls and one LVCalc call, found %d and %d' % (len(pre), len(lvc)))
        return
    pn = [p['name'] for p in f.params]
    got = sorted(tuple(T(x) for x in call_args(n)) for n in pre)
    xs = [t for t in got if t[0] == pn[0]]
    ys = [t for t in got if t[0] == pn[1]]
    probs = []
    if len(xs) != 1 or xs[0][1:4] != (pn[3], 'model->xcolaverage', 'model->xcolscaling'):
        probs.append(('x', 'the X block is not preprocessed as (mx, xautoscaling, model->xcolaverage, model->xcolscaling): %s' % (xs,)))
    if len(ys) != 1 or ys[0][1:4] != (pn[4], 'model->ycolaverage', 'model->ycolscaling'):
        probs.append(('y', 'the Y block is not preprocessed as (my, yautoscaling, model->ycolaverage, model->ycolscaling): %s' % (ys,)))
    la = [T(x) for x in call_args(lvc[0])]
    if not probs and la[:2] != [xs[0][4], ys[0][4]]:
        probs.append(('lvcalc', 'LVCalc is run on (%s, %s), not on the preprocessed blocks (%s, %s)' % (la[0], la[1], xs[0][4], ys[0][4])))
    gp = [n for n in walk(g.body) if n.get('kind') == 'CallExpr' and callee_name(n) == 'MatrixPreprocess']
    gn = [p['name'] for p in g.params]
    if len(gp) != 1:
        chk.broke('PLSScorePredictor: %d MatrixPreprocess calls' % len(gp))
        return
    ga = [g.unit.text(x).replace(' ', '') for x in call_args(gp[0])]
    if ga[0] != gn[0] or ga[1] != '-1' or ga[2:4] != ['%s->xcolaverage' % gn[1], '%s->xcolscaling' % gn[1]]:
        probs.append(('apply', 'PLSScorePredictor does not apply the stored X statistics: MatrixPreprocess(%s)' % ', '.join(ga)))
    if not probs:
        chk.instance(R, '%s PLS: X -> (xcolaverage, xcolscaling), Y -> (ycolaverage, ycolscaling), LVCalc on both preprocessed blocks' % f.unit.where(pre[0]))
        chk.instance(R, '%s PLSScorePredictor: applies model->xcolaverage / xcolscaling (option -1)' % g.unit.where(gp[0]))
    for key, msg in probs:
        chk.instance(R, '%s %s' % (f.where, msg), 'refuted')
        chk.violation(Finding('PLS.blocks', rel(f.file), f.name, key, f.where, msg))


def clamps(chk, prog, rule, names):
    """a count parameter (number of components) is only ever lowered to an available count:  if (n > e) n = e"""
    R = chk.rule(rule, 'the number of components a routine is asked for is only changed by  if (n > e) n = e  (lowered to what is available, never below it)')
    for name in names:
        f = prog.funcs.get(name)
        if f is None or f.body is None:
            chk.broke('%s not found' % name)
            continue
        ints = {p['name'] for p in f.params if not fe.is_float_type(p) and '*' not in str(p.get('type', {}).get('qualType', ''))}
        parents = {}
        for n in walk(f.body):
            for c in kids(n):
                parents[id(strip(c))] = n
                parents[id(c)] = n
        for n in walk(f.body):
            if n.get('kind') in ('BinaryOperator', 'CompoundAssignOperator') and n.get('opcode', '').endswith('=') and n.get('opcode') not in ('==', '!=', '<=', '>='):
                l0 = strip(kids(n)[0])
                if l0.get('kind') != 'DeclRefExpr' or l0['referencedDecl'].get('name') not in ints:
                    continue
                pnm = l0['referencedDecl'].get('name')
                rhs = f.unit.text(kids(n)[1]).replace(' ', '')
                # the enclosing if
                cur, cond = n, None
                for _ in range(4):
                    par = parents.get(id(cur))
                    if par is None:
                        break
                    if par.get('kind') == 'IfStmt':
                        ks = kids(par)
                        inthen = any(m is n for m in walk(ks[1]))
                        cond = (f.unit.text(ks[0]).replace(' ', ''), inthen)
                        break
                    cur = par
                ok = n.get('opcode') == '=' and cond is not None and cond[1] and cond[0] in ('%s>%s' % (pnm, rhs), '%s<%s' % (rhs, pnm), '%s>=%s' % (pnm, rhs), '%s<=%s' % (rhs, pnm))
                if ok:
                    chk.instance(R, '%s %s: if (%s) %s = %s' % (f.unit.where(n), name, cond[0], pnm, rhs))
                else:
                    chk.instance(R, '%s %s: %s' % (f.unit.where(n), name, f.unit.text(n)[:80]), 'refuted')
                    chk.violation(Finding(rule, rel(f.file), name, 'clamp:%s' % pnm, f.unit.where(n),
                                          '%s: the requested count %s is changed by `%s`%s, not lowered to an available count by `if (%s > e) %s = e`' %
                                          (name, pnm, f.unit.text(n)[:80], ' under `%s`' % cond[0] if cond else '', pnm, pnm)))


def run(chk, prog):
    from . import matexpr
    clamps(chk, prog, 'PLS.clamp', ('PLS', 'PLSScorePredictor', 'PLSYPredictor', 'PLSBetasCoeff'))
    for r_ in ('PLS.iteration', 'PLS.latent-variable', 'PLS.store'):
        chk.rule(r_, '')
    roles = latent_variable(chk, prog)
    if roles:
        store(chk, prog, roles)
    predictor(chk, prog)
    score_predictor(chk, prog)
    all_lv(chk, prog)
    blocks(chk, prog)
    matexpr.run(chk, prog, names=('PLSBetasCoeff',))
