"""Generic expression canonicalisation: C integer expressions -> Poly, conditions -> canonical
conjunct sets, access paths (m->row, arg[th].x, (*p)->col) -> strings over resolved decls."""
from . import frontend as fe
from .frontend import kids, strip
from .sym import Poly


def path_of(n, unit=None, byname=False):
    """Access path of an lvalue expression as a string over declaration ids (rename-safe within a
    unit) or names (byname=True, for cross-function comparison).  None if not a path."""
    n = strip(n)
    k = n.get('kind')
    if k == 'DeclRefExpr':
        d = n['referencedDecl']
        return d.get('name') if byname else '%s#%s' % (d.get('name'), d.get('id'))
    if k == 'MemberExpr':
        b = path_of(kids(n)[0], unit, byname)
        if b is None:
            return None
        return b + ('->' if n.get('isArrow') else '.') + n.get('name', '?')
    if k == 'UnaryOperator' and n.get('opcode') == '*':
        b = path_of(kids(n)[0], unit, byname)
        return None if b is None else '(*%s)' % b
    if k == 'UnaryOperator' and n.get('opcode') == '&':
        b = path_of(kids(n)[0], unit, byname)
        return None if b is None else '(&%s)' % b
    if k == 'ArraySubscriptExpr':
        a, i = kids(n)
        b = path_of(a, unit, byname)
        ip = to_poly(i, byname=byname)
        if b is None:
            return None
        return '%s[%s]' % (b, ip)
    return None


def to_poly(n, byname=False, env=None):
    """Integer expression -> Poly; anything unrecognised becomes an opaque atom '?<kind>@<offset>'.
    env: optional dict path -> Poly giving current values of variables."""
    n = strip(n)
    k = n.get('kind')
    if k == 'IntegerLiteral':
        return Poly.const(int(n['value']))
    if k == 'CharacterLiteral':
        return Poly.const(int(n['value']))
    if k in ('DeclRefExpr', 'MemberExpr', 'ArraySubscriptExpr') or (k == 'UnaryOperator' and n.get('opcode') == '*'):
        if k == 'DeclRefExpr' and n['referencedDecl'].get('kind') == 'EnumConstantDecl':
            return Poly.atom('enum:' + n['referencedDecl']['name'])
        p = path_of(n, byname=byname)
        if p is not None:
            if env is not None and p in env:
                return env[p]
            return Poly.atom(p)
    if k == 'UnaryOperator':
        op = n.get('opcode')
        if op == '-':
            return -to_poly(kids(n)[0], byname, env)
        if op == '+':
            return to_poly(kids(n)[0], byname, env)
    if k == 'BinaryOperator':
        op = n.get('opcode')
        a, b = kids(n)
        if op == '+':
            return to_poly(a, byname, env) + to_poly(b, byname, env)
        if op == '-':
            return to_poly(a, byname, env) - to_poly(b, byname, env)
        if op == '*':
            return to_poly(a, byname, env) * to_poly(b, byname, env)
    if k == 'UnaryExprOrTypeTraitExpr':
        return Poly.atom('sizeof(%s)' % (n.get('argType', {}).get('qualType') or
                                         (kids(n) and fe.qual(strip(kids(n)[0]))) or '?'))
    b = fe.begin(n) or {}
    return Poly.atom('?%s@%s' % (k, b.get('offset')))


def canon_rel(op, a, b):
    """(rel, Poly) with rel in {'<=0','==0','!=0'} over integers"""
    if op == '<':
        return ('<=0', a - b + 1)
    if op == '<=':
        return ('<=0', a - b)
    if op == '>':
        return ('<=0', b - a + 1)
    if op == '>=':
        return ('<=0', b - a)
    if op == '==':
        p = a - b
        return ('==0', p if _lead_pos(p) else -p)
    if op == '!=':
        p = a - b
        return ('!=0', p if _lead_pos(p) else -p)
    return None


def _lead_pos(p):
    for k, v in sorted(p.t.items()):
        return v > 0
    return True


def negate(c):
    rel, p = c
    if rel == '<=0':
        return ('<=0', -p + 1)      # not(p <= 0)  <=>  p >= 1  <=>  -p + 1 <= 0
    if rel == '==0':
        return ('!=0', p)
    if rel == '!=0':
        return ('==0', p)
    if rel == 'true':
        return ('false', p)
    if rel == 'false':
        return ('true', p)
    return ('not', c)


def conjuncts(n, positive=True, byname=False, env=None):
    """Condition -> list of canonical atoms whose conjunction is implied by (cond == positive).
    A disjunction under positive polarity (or conjunction under negative) yields a single
    opaque ('or', frozenset(...)) atom."""
    n = strip(n)
    k = n.get('kind')
    if k == 'UnaryOperator' and n.get('opcode') == '!':
        return conjuncts(kids(n)[0], not positive, byname, env)
    if k == 'BinaryOperator':
        op = n.get('opcode')
        a, b = kids(n)
        if op in ('&&', '||'):
            if (op == '&&') == positive:
                return conjuncts(a, positive, byname, env) + conjuncts(b, positive, byname, env)
            la = conjuncts(a, positive, byname, env)
            lb = conjuncts(b, positive, byname, env)
            return [('or', frozenset([tuple(la), tuple(lb)]))]
        if op in ('<', '<=', '>', '>=', '==', '!='):
            if fe.is_float_type(strip(a, casts=False)) or fe.is_float_type(strip(b, casts=False)):
                c = ('float', op, text_key(a), text_key(b))
                return [c if positive else ('not', c)]
            c = canon_rel(op, to_poly(a, byname, env), to_poly(b, byname, env))
            return [c if positive else negate(c)]
    # plain truth value of an integer/pointer expression
    p = to_poly(n, byname, env)
    c = ('!=0', p if _lead_pos(p) else -p)
    return [c if positive else negate(c)]


def text_key(n):
    """Structural key of an arbitrary expression over resolved decl names (used for equality of
    floating or call expressions; not position dependent)."""
    n = strip(n, casts=True)
    k = n.get('kind')
    if k == 'DeclRefExpr':
        return n['referencedDecl'].get('name')
    if k in ('IntegerLiteral', 'FloatingLiteral', 'CharacterLiteral', 'StringLiteral'):
        return str(n.get('value'))
    parts = [text_key(c) for c in kids(n)]
    tag = n.get('opcode') or n.get('name') or ''
    if k == 'MemberExpr':
        return '%s%s%s' % (parts[0], '->' if n.get('isArrow') else '.', n.get('name'))
    if k == 'ArraySubscriptExpr':
        return '%s[%s]' % (parts[0], parts[1])
    if k == 'CallExpr':
        return '%s(%s)' % (parts[0], ','.join(parts[1:]))
    if k in ('BinaryOperator', 'CompoundAssignOperator'):
        return '(%s%s%s)' % (parts[0], tag, parts[1])
    if k == 'UnaryOperator':
        return '(%s%s)' % (tag, parts[0]) if not n.get('isPostfix') else '(%s%s)' % (parts[0], tag)
    return '%s<%s>(%s)' % (k, tag, ','.join(parts))
