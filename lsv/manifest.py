"""Regenerates /verif/MANIFEST.json from the table below:  python3 -m lsv.manifest"""
import json
import os

VERIF = os.path.dirname(os.path.dirname(os.path.abspath(__file__)))

NOT_APPLICABLE = {
    'C01': 'orthogonality/variance/reconstruction are floating-point identities over runtime data; no structural clause beyond bounds (C11) and thread partition (C13)',
    'C02': 'spectral correctness depends on eigen-gaps and a runtime convergence test; pinning the tolerance constant would be a frozen-source proxy',
    'C04': 'OLS limit, monotone RSS, beta/score agreement and affine equivariance are numerical relations between runs',
    'C09': 'equivalence of two iterative algorithms up to tolerance is numerical; guard and bounds clauses are covered under C10/C11',
}

# property -> (engine, category, technique, text, note, design_ref)
CLAIMED = {
    'C13': ('slices', 'other', 'abstraction of each dispatch loop to a guarded polynomial recurrence (path-sensitive symbolic execution of the loop body by the shape engine) whose partition properties are checked for every (rows, threads) pair of the bound; ownership rule over worker stores; create/join pairing; worker bounds under dispatcher-established facts',
            'Decides the partition/ownership/join clauses: for all 10 range-slicing dispatch loops (running-offset and closed-form block schemes) and every (rows, threads) pair up to the bound (thorough: rows 0..40 x threads 1..24, the property quantifier) the worker ranges start at 0, are contiguous, stay within the extent and end at it -- every row is processed by exactly one worker; workers write shared storage only at their own indices and re-initialise every scalar accumulator for each row of their slice; condensed vectors have (n*n-n)/2 cells; threads are joined before their arguments are freed. Numeric agreement with the sequential kernels, metric axioms and bijectivity of the condensed index map are NOT decided.',
            'Trusted: clang AST; the recurrence extraction of the shape engine; worker contracts of lsv/contracts.json; square_to_condensed_index injective on i < k (assumption).',
            'DESIGN.md 2/E3, 3/C13'),
    'C11': ('shape', 'other', 'symbolic extent/index abstract interpretation of every dense kernel under its frozen conformability contract (rejected-shape baseline), with callee contracts instantiated as caller obligations; three-valued obligations with shape witnesses; cell-form extraction with symbolic indices unified with the textbook definitions; sort-shape and tolerance rules',
            'Decides the all-shapes memory/extent clause: for every shape admitted by the kernel\'s contract and own guards (including empty, single-row/column and non-square shapes) every subscript is in range, every internal call is conformable, and the two factors of every product term of a contraction use the same summation index; MatrixSort/MatrixReverseSort exchange whole rows exactly when a plain strict comparison of the keys finds them out of order (all pairs visited), so the result is a row permutation ordered by the key; no kernel applies an absolute tolerance to a data-scaled quantity outside the confirmed sites; and for 15 kernels (matrix-vector, vector-matrix, matrix-matrix plain and 4-way unrolled, outer product, transpose, trace, Frobenius norm, dot product, vector module, vector sum/difference, three tensor contractions) the cell form extracted with symbolic loop indices (output index, term, index domain) equals the textbook definition, i.e. in exact arithmetic and apart from the MISSING/NaN filters they compute their definition for every shape, including the coverage of the inner dimension by the unrolled loop and its remainder loop. Floating-point rounding, the values of the remaining kernels (covariance, correlations, descriptive statistics) and the algebraic laws as such are NOT decided.',
            'Trusted: clang AST; lsv/contracts.json (each precondition hand-confirmed with a reason); no aliasing between distinct parameters; LP64.',
            'DESIGN.md 2/E1, 3/C11'),
    'C12': ('shape', 'other', 'guard-dominance rule for pivots (division by a diagonal element must be tested or preceded by a pivot-row store), zeroed-output typestate for accumulating kernels, plus symbolic extent analysis of the LAPACK wrappers including the documented argument sizes of dgetrf/dgetri/dgesdd/dgeev',
            'Decides the pivoting-required clause structurally (no elimination ratio divides by an untested, unexchanged diagonal; a running pivot maximum compared with fabs holds magnitudes only) and the buffer clause (raw column-major buffers, IPIV, WORK/LWORK, s/u/vt sizes for square and rectangular input are large enough; conversions stay in range), and the zeroed-output clause: the product kernels only add into their output (derived), and every call in the solvers passes an output zeroed on every path since its last write, so least squares / pseudo-inverse return the solution and not old content + solution; read as sequences of kernel calls over symbolic matrices, the pseudo-inverse and least-squares routines return (A\'A)^-1 A\' and (X\'X)^-1 X\'y on every path, and the SVD-based helper that is only valid for symmetric arguments is only handed Gram matrices. M M^-1 = I, Penrose conditions, eigen-equations and reconstruction are numeric and NOT decided.',
            'Trusted: clang AST; contracts.json; LAPACK writes only within its documented argument sizes (table in lsv/shapecheck.py).',
            'DESIGN.md 2/E1,E7c, 3/C12'),
    'C14': ('shape', 'other', 'symbolic extent/index abstract interpretation (path-sensitive, polynomial shape atoms, row/slot segment heap model, three-valued obligations with shape witnesses) applied to every public container operation from an arbitrary invariant-satisfying state, plus post-invariant, lifetime, deep-copy, slot typestate and written-cell (initialisation) rules',
            'Discharges the history quantifier by induction: each of the ~90 container operations, from ANY argument state satisfying the container invariants, makes only in-extent accesses, uses/frees nothing after release, copies deeply and re-establishes the invariants with the updated counts; an unsigned local initialised with a difference (size - 1) never wraps; out-of-range index arguments reach an error path before any subscript. Also decides that every newly exposed cell (in storage the operation allocated) is stored to before return, so no cell below the counts is indeterminate. Which value a cell gets (old value preserved / zero), allocator failure and string contents are NOT decided.',
            'Trusted: clang AST; container invariants assumed at entry and re-proved at exit; distinct parameters do not alias; LP64. UNDECIDED obligations are counted in the evidence and never alarm.',
            'DESIGN.md 2/E1, 3/C14, Appendix C'),
    'C07': ('mlrcheck+matexpr+accum', 'other', 'cell-form extraction with symbolic loop indices (design matrix, predictor, residuals, R2/SDEC sums) unified with their definitions; call-sequence algebra over symbolic matrices for the solver; zeroed-output typestate for the accumulating product kernels',
            'Decides in exact arithmetic: MLR builds the design matrix [1 | X]; for every response column the coefficient vector is OrdinaryLeastSquares(design, y_j) = (D\'D)^-1 D\'y_j, appended as column j (row 0 = intercept); hence the normal equations hold -- training residuals sum to zero and are orthogonal to every predictor, noise-free linear data are recovered, and the fit is equivariant to shifts/scalings of a response and to invertible re-mixing of the predictors; MLRPredictY computes intercept + X b for any matrix, residual = predicted - observed, R2 = 1 - RSS/TSS about the column mean of the observed response, with RSS and TSS accumulated term by term in the centred form (no one-pass cancellation), and SDEC = sqrt(RSS/n). NOT decided: the numerical accuracy of the Gauss-Jordan inverse on ill-conditioned X (condition numbers up to 1e4 are in the quantifier), R2 in [0,1] as a floating-point statement.',
            'Trusted: clang AST; real arithmetic; X of full column rank (the property\'s premise) so that the inverse exists. Unrecognised loop shapes are ANALYSIS-BROKEN.',
            'DESIGN.md 3/C07 (revised in 10.7), 10.6 (E16, E17, E15)'),
    'C17': ('kmeanscheck+slices', 'other', 'cell-form extraction with symbolic indices for the distance and the scatter-mean update, structural recognition of the running-minimum idiom, and the partition / ownership / accumulator rules of the slicing engine on the clustering dispatchers',
            'Decides the k-means clauses only, in exact arithmetic: every object is labelled with the index (in range) of the first centroid at minimal Euclidean distance; every returned centroid is the mean of the objects carrying its label (empty clusters re-seeded from a data row); labels do not depend on the thread count (rows partitioned exactly once among the workers for every rows/threads pair of the bound, workers own their rows and carry no accumulator across rows); the iteration stops only when every coordinate of every centroid equals the previous one within the documented absolute EPSILON (first mismatch means not converged). NOT decided: that the capped iteration reaches that state; every clause about the selection methods (MDC, both max-min implementations, k-means++): number and distinctness of the returned indices, farthest-first optimality, equality of the two max-min implementations.',
            'Trusted: clang AST; real arithmetic; thread counts >= 1; no aliasing. Unrecognised loop shapes are ANALYSIS-BROKEN.',
            'DESIGN.md 3/C17 (revised in 10.7)'),
    'C19': ('dims+spline+simplex', 'other', 'units-of-measure inference (dimensions X^a Y^b, linear system over Q) plus statement-level computer algebra: array stores read as rational functions of symbolic cells with a symbolic index, recognition of the Thomas elimination / back-substitution recurrences, polynomial normalisation of the spline conditions; pairing typestate over the Nelder-Mead table; nothing is executed, no loop unrolled',
            'Decides in exact arithmetic: unit independence (dimensional homogeneity); the spline passes through every point, has a continuous second derivative, solves exactly the first-derivative-continuity system (one multiplier per eliminated row, covering back substitution, reads inside defined ranges), has zero second derivative at both ends, reproduces straight lines, and is evaluated as the cubic of the piece whose own range guard holds; every trapezoid term is the exact integral of its segment and the area is the plain sum over all consecutive segments (additive); in the simplex minimiser every stored value is the objective at its own row, the reported value is the objective at the returned point (row 0 after an ascending whole-row sort) and the best vertex is never overwritten, so the result is never worse than the best initial vertex. Floating-point rounding, non-increasing abscissae and convergence of the minimiser are NOT decided.',
            'Trusted: clang AST; seeds (column 0 = X, column 1 = Y, abscissa vector X, prediction Y); literal 0 polymorphic, other literals dimensionless under +,-,compare; sentinel tests against MISSING exempt; Thomas algorithm correctness and real arithmetic. A sweep/back-substitution shape that is not recognised is ANALYSIS-BROKEN (exit 2), never a pass.',
            'DESIGN.md 2/E11, 3/C19, 10.6 (E12)'),
    'C10': ('guards+reduce', 'other', 'control-dependence (guard dominance) analysis with structural recognition of the ApproxEq/MISSING idioms (zero-divisor guard with zero-store arm, not-missing guard over reads and counters), reduction-form abstraction of the column statistics (closed forms over column sums, polynomial normalisation), option-to-statistic table, sibling cross-check of the fit and apply branches, delegation shape',
            'Decides: columns without spread are stored as exactly 0 at every scaling-division site and spread statistics are centred sums; MatrixColAverage/Var/SDEV/RMS equal their definitions over the non-missing cells of each column (exact arithmetic); every option 1..5 stores the statistic promised for it and centring subtracts the column average of the same matrix; the apply branch treats every cell as the fit branch does (same guards, same tolerances) and other re-applications use the fit tolerance; TensorPreprocess delegates block by block. Hence, in exact arithmetic, zero means, the promised statistic and fit/apply agreement. Floating-point rounding of transformed values is NOT decided.',
            'Trusted: clang AST; ApproxEq recognised as ((v-e) < x) && (x < (v+e)); the MISSING literal from numeric.h; real arithmetic; the option order of the property statement (1 SD, 2 RMS, 3 Pareto, 4 range, 5 level).',
            'DESIGN.md 2/E6b-E7, 3/C10, 10.6 (E14, FA)'),
    'C15': ('guards+reduce', 'other', 'reduction-form abstraction (each figure of merit becomes a closed form over sums on the non-missing truths, composed symbolically and normalised as polynomials; nothing executed) plus control-dependence analysis (not-missing guard over element reads, counters and count divisors), call-graph/argument identity for RMSE, index-role typing of the statistic tables',
            'Decides in exact arithmetic that R2, MSE, RMSE, MAE and BIAS return their defining formulas over the non-missing truths (algebraically equal rewrites normalise to the same form; RMSE^2 = MSE, R2 = 1 and zero errors for perfect prediction, R2 <= 1, MAE <= RMSE are consequences of those formulas), that missing-coded truths are ignored (every read, count and divisor is tied to the test on the truth element of the same index), and that the PLS statistic tables pair prediction column q*lv+j with truth column j into cell (lv, j). For the ROC / precision-recall constructions two structural necessary conditions of the rank-based clauses: the descending sort compares keys with a plain strict comparison and moves whole rows, and scores are never compared with an absolute tolerance (the curves depend on the order of the scores only). Floating-point rounding and the ROC / precision-recall identities themselves are NOT decided.',
            'Trusted: clang AST; ApproxEq/MISSING recognised structurally; role seeds of lsv/layout.py; real arithmetic. A function that is not a plain reduction (running recurrences, early exits) is ANALYSIS-BROKEN, never a pass.',
            'DESIGN.md 2/E5,E7, 3/C15, 10.6 (E14)'),
    'C08': ('offsets', 'other', 'affine-offset abstract interpretation (every small integer = class index + polynomial in class_start, branch-sensitive) checked at label/index comparisons, label stores and per-class subscripts; def-use rules dead-input and overwritten-store',
            'Decides the label/index clause for both numbering conventions (a returned label is index + class_start, every per-class array is subscripted by an index, comparisons pair a label with index + class_start), the arg-max search compares against an element of the score row or a true lower bound and the input-relevance clause of the one-vs-rest statistics (both label vectors reach the ROC inputs); every per-class value appended inside a loop over the classes (priors, means, statistics) depends on the class index (no stale, loop-invariant value); the code for labels numbered from 0 and from 1 is identical up to the label offset. The numeric value of priors and means, arg-max optimality, affine invariance and AUC values are NOT decided.',
            'Trusted: clang AST; class_start in {0,1}; label containers seeded by parameter position (LDA/LDAError #1, LDAPrediction #5).',
            'DESIGN.md 2/E8, 3/C08'),
    'C16': ('ioflow', 'other', 'writer/reader agreement by dataflow over the call sites (table literal, codec, model field), stream-grammar abstraction of each (de)serialiser compared structurally, SQL effect classification of the constant strings reaching sqlite3_exec/prepare with a must-precede (truncate-before-insert) check, mod/ref purity of the writers, format-precision check',
            'Decides: same tables/codecs/fields on both sides and every container field persisted (one open known finding: PCAMODEL.dmodx); serialiser and deserialiser consume the same grammar and the serialiser allocates what it emits; the history clause as "every write first empties what it fills"; writers do not modify the model; >= 15 fractional digits; SQL text is built in storage sized from its formatted length; no connection-lifetime lock is combined with a statement that may stay unfinalized at close (a read would leave the file locked and later writes would fail silently). Other SQLite behaviour, text->double rounding and prediction equality after reload are NOT decided.',
            'Trusted: clang AST; SQL reaches the database only through sqlite3_exec / sqlite3_prepare_v2+step with constant format strings (anything else is classified OTHER and cannot discharge the truncate rule).',
            'DESIGN.md 2/E9, 3/C16'),
    'C05': ('cv', 'other', 'control-dependence partition analysis of the split code with derived train/test/selector roles, followed by dataflow into the 8 workers (no-leak), selector-consistency by polynomial equality, learner-dispatch exhaustiveness across sibling routines, create/join pairing, predicate dataflow for the rejection-sampling store, index-role typing of the residual columns',
            'Decides the structural clauses: split is a partition by construction, held-out selector == placement selector, fit sees only training data and the held-out response is never used, every learner is dispatched and every thread joined, ids are stored only when fresh and the group table has rows x ceil(objects/rows) cells with the division carried out in floating point (no object is left without a group), residuals pair matching columns, per-worker prediction accumulators are fresh for every batch of bootstrap iterations (the reported value is the plain mean of the per-iteration predictions). Equality with an independently refitted model, finiteness, and that the random group matrix is a permutation at value level are NOT decided.',
            'Trusted: clang AST; roles derived from kfold_group_train_test_split control dependence; fit entry points PLS/MLR/EPLS/LDA take (x, y) first. A worker or split routine the rules cannot bind is ANALYSIS-BROKEN.',
            'DESIGN.md 2/E5-E6, 3/C05'),
    'C03': ('layout', 'other', 'index-role typing (a units-of-measure style dataflow over extents q, A, q*A and the indices ranging over them) checked at every subscript, column composition, column decomposition and column append; sibling cross-check of the fit/apply preprocessing branches; comparison-idiom rule on stored scalings; zeroed-output typestate for accumulating kernels',
            'Decides the column-layout clause (matrices with q*A columns are produced and consumed LV-major, column c paired with response c mod q) and structural necessary conditions of the re-projection / back-transform clauses: the score predictor preprocesses with the model fields the fit filled; the fit and apply branches of MatrixPreprocess store under the same guards and tolerances; stored scalings (which may be negative) are only tested with the two-sided ApproxEq idiom, so the y back-transform is not skipped for some columns; every product kernel called in pls.c receives an output that was zeroed since it was last written; no absolute tolerance is applied to a data-scaled quantity (the squared score norm, vector norms) in the PLS fitting / prediction code, so small-scale data are deflated like any other. Orthogonality, the deflation arithmetic and the values of the fitted responses are NOT decided.',
            'Trusted: clang AST; the role seeds (struct fields and public parameter positions, DESIGN.md Appendix A). A subscript whose roles cannot be inferred is counted as undecided, never as a violation.',
            'DESIGN.md 2/E5, 3/C03'),
    'C18': ('loopterm', 'other', 'termination certificates: per-loop ranking argument over the structured AST (constant-step counter on every path, loop-invariant bound with callee mod summaries, capped exits incl. callee "returns non-zero when a>b" summaries) for all loops reachable in the call graph from the fitting roots',
            'Decides the termination clause: each of the ~435 loops reachable from PCA/PLS/CPCA/KMeans/NelderMeadSimplex/CV drivers/MLR workers has a counted/capped/consuming certificate or is one of 3 listed rejection-sampling/assumed loops (the k-means++ seeding loop, formerly a known finding, is repaired and proved). One structural condition of the finiteness clause: no selection (NIPALS start vector) is driven by the column mean of a column-centred matrix, which is zero by construction. Finiteness of components in general and zero-vs-NaN variance are NOT decided.',
            'Trusted: clang AST, structured control flow, no aliasing of a container under two names inside one loop, thread counts >= 1. Unknown loop shapes are violations (no certificate), vanished roots are ANALYSIS-BROKEN.',
            'DESIGN.md 2/E4, 3/C18'),
    'C06': ('threads', 'other', 'whole-program call graph + global-write effect analysis from every pthread entry (thread escape), must-precede dataflow for seeding, structural create/join pairing, polynomial seed-schedule check',
            'Decides the race/seeding/join clauses only: no reachable unsynchronised write to shared mutable state from any of the 15 thread entries; RNG state touched only by the RNG API; every worker seeds (from its argument) before it draws; all 13 dispatch regions join exactly what they create before freeing/reading; the bootstrap seed is schedule-invariant; workers store only through per-worker argument fields (T4); per-worker accumulators are fresh in every batch so nothing depends on how iterations are cut into batches (T6). Bit-identity of floating-point results and rounding-level equality across thread counts are NOT decided.',
            'Trusted: clang AST; structured control flow (no goto/switch, re-checked); pthread_create/join as the only thread primitives; mutex regions recognised lexically.',
            'DESIGN.md 2/E2, 3/C06'),
    'C20': ('abi', 'proof', 'compile-fail witnesses generated from the Python ast (redeclaration compatibility, _Static_assert on sizeof/offsetof/types), clang -fsyntax-only as oracle',
            'Decides the whole property for the current tree: every ctypes structure and every declared/called foreign function is compared with the C declarations; obligations are enumerated and each is discharged by the C compiler or an exact count comparison. Exhaustive over the finite set of declarations.',
            'Trusted: clang C type-compatibility rules, CPython ast, LP64 layout table. Python expressions other than literal ctypes constructors make the check ANALYSIS-BROKEN (exit 2), not pass.',
            'DESIGN.md 2/E10, 3/C20'),
}

PENDING_REASON = 'claim planned in DESIGN.md section 3; its engine is not built yet, so the property is not claimed at this commit'


def build():
    checks = []
    for pid in sorted(CLAIMED):
        eng, cat, tech, text, note, ref = CLAIMED[pid]
        checks.append({
            'property_id': pid,
            'quick_cmd': './check %s --tier quick' % pid,
            'thorough_cmd': './check %s --tier thorough' % pid,
            'evidence_file': 'evidence/%s.json' % pid,
            'replay_cmd_template': './check %s --replay {path}' % pid,
            'engine': eng,
            'level_claimed': {'category': cat, 'text': text, 'design_ref': ref},
            'level_note': note,
            'technique': tech,
        })
    na = [{'property_id': p, 'reason': r} for p, r in sorted(NOT_APPLICABLE.items())]
    allp = [json.loads(l)['id'] for l in open(os.path.join(VERIF, 'properties.jsonl'))]
    for p in allp:
        if p not in CLAIMED and p not in NOT_APPLICABLE:
            na.append({'property_id': p, 'reason': PENDING_REASON})
    na.sort(key=lambda e: e['property_id'])
    engines = {}
    for pid, v in CLAIMED.items():
        engines.setdefault(v[0], []).append(pid)
    man = {
        'version': 1,
        'setup_cmd': 'python3 -m compileall -q lsv && python3 -c "import ast, json"',
        'hooks': {
            'guard': 'LIBSCIENTIFIC_VERIF',
            'enable': 'no source hook exists: every engine reads the unmodified sources (clang -fsyntax-only -Xclang -ast-dump=json over /repo/src)',
            'baseline_off_cmd': './tools/baseline.sh',
            'source_commits': [],
            'add_only': True,
        },
        'engines': [{'name': e, 'path': 'lsv/%s.py' % e.split('+')[0], 'serves_properties': sorted(ps),
                     'kind_free_text': 'custom static analysis over the clang JSON AST of /repo/src (python3)' +
                                       ('; modules: ' + ', '.join('lsv/%s.py' % x for x in e.split('+')) if '+' in e else '')}
                    for e, ps in sorted(engines.items())],
        'checks': checks,
        'not_applicable': na,
        'notes': 'Static analysis only. Exit 0 HOLD, 1 VIOLATION (with replay file), 2 ANALYSIS-BROKEN (anchor vanished / '
                 'instance floor missed / unknown idiom; never a VIOLATION line). Known findings: known_findings.json.',
    }
    return man


if __name__ == '__main__':
    json.dump(build(), open(os.path.join(VERIF, 'MANIFEST.json'), 'w'), indent=1)
    print('MANIFEST.json written')
