"""Degenerate statistics: the column mean of a matrix that was column-centred is zero (to rounding), so a selection driven by it is
arbitrary -- in NIPALS it picks the start vector, and a constant first column then gives a null start vector although a leading
component exists.

  DG.mean-of-centred   no MatrixColAverage of a (possibly) centred matrix feeds a comparison.
"Centred" is propagated inter-procedurally: the output of MatrixPreprocess / MeanCenteredMatrix, and every parameter that
receives such a matrix at some call site."""
from . import frontend as fe
from .frontend import kids, strip, walk, callee_name, call_args
from . import exprs
from .report import Finding

CENTRING = {'MatrixPreprocess': 4, 'MeanCenteredMatrix': 1, 'TensorPreprocess': 4}      # producer -> index of the centred output argument


def rel(p):
    return p[len(fe.REPO) + 1:] if p.startswith(fe.REPO + '/') else p


def base_name(e):
    e = strip(e)
    while e.get('kind') in ('UnaryOperator', 'ParenExpr') and kids(e):
        e = strip(kids(e)[0])
    return e['referencedDecl'].get('name') if e.get('kind') == 'DeclRefExpr' else None


def run(chk, prog, units):
    R = chk.rule('DG.mean-of-centred', 'the column mean of a matrix that was centred (output of MatrixPreprocess / MeanCenteredMatrix, or a parameter '
                 'receiving one) never drives a comparison: it is zero by construction, a spread statistic is needed')
    funcs = [f for f in prog.all_funcs() if f.unit.name in units and f.body is not None]
    centred = {}          # function name -> set of variable names (locals or parameters)
    changed = True
    while changed:
        changed = False
        for f in funcs:
            cur = centred.setdefault(f.name, set())
            for cn, node in f.calls:
                a = call_args(node)
                if cn in CENTRING and len(a) > CENTRING[cn]:
                    b = base_name(a[CENTRING[cn]])
                    if b and b not in cur:
                        cur.add(b)
                        changed = True
                if cn in ('MatrixCopy', 'TensorCopy') and len(a) == 2 and base_name(a[0]) in cur:
                    b = base_name(a[1])              # a copy of a centred matrix is centred
                    if b and b not in cur:
                        cur.add(b)
                        changed = True
                g = prog.funcs.get(cn) if cn else None
                if g is not None and g.body is not None and g.unit.name in units:
                    for i2, arg in enumerate(a):
                        b = base_name(arg)
                        if b in cur and i2 < len(g.params):
                            pn = g.params[i2].get('name')
                            if pn not in centred.setdefault(g.name, set()):
                                centred[g.name].add(pn)
                                changed = True
    n = 0
    for f in funcs:
        cur = centred.get(f.name, set())
        for cn, node in f.calls:
            if cn != 'MatrixColAverage':
                continue
            a = call_args(node)
            src, dst = base_name(a[0]), base_name(a[1])
            if src not in cur:
                continue
            n += 1
            # is a cell of dst compared?
            used = None
            for x in walk(f.body):
                if x.get('kind') == 'BinaryOperator' and x.get('opcode') in ('<', '>', '<=', '>='):
                    for o in kids(x):
                        o0 = strip(o)
                        if o0.get('kind') in ('ArraySubscriptExpr', 'CallExpr') and base_name(kids(strip(kids(o0)[0]))[0] if o0.get('kind') == 'ArraySubscriptExpr' and kids(strip(kids(o0)[0])) else (call_args(o0)[0] if o0.get('kind') == 'CallExpr' and call_args(o0) else o0)) == dst:
                            used = x
            if used is None:
                chk.instance(R, '%s %s: mean of the centred matrix `%s` is computed but drives no comparison' % (f.unit.where(node), f.name, src))
            else:
                chk.instance(R, '%s %s: comparison on the mean of the centred matrix `%s`' % (f.unit.where(used), f.name, src), 'refuted')
                chk.violation(Finding('DG.mean-of-centred', rel(f.file), f.name, 'mean:%s' % src, f.unit.where(used),
                                      '%s: `%s` compares column means of `%s`, a matrix that is column-centred whenever a centring option is used: all '
                                      'those means are zero (to rounding), the selection is arbitrary (the first column wins); with a constant first '
                                      'column the start vector is null and every component comes out NaN although a leading component exists'
                                      % (f.name, f.unit.text(used)[:70], src)))
    chk.extra['centred_matrices'] = {k: sorted(v) for k, v in centred.items() if v}
    if not any(centred.values()):
        chk.broke('DG.mean-of-centred: no centred matrix was found (MatrixPreprocess outputs not recognised)')
    else:
        chk.instance(R, 'centred matrices tracked through %d function(s); %d column-mean computation(s) on them examined' % (sum(1 for v in centred.values() if v), n))
    return n


def null_components(chk, prog):
    """C18, second clause, structural part: a NIPALS routine that can leave its iteration through an `is NaN` exit (a null component) must
    not let that NaN reach the stored model or the residual: between the exit and the stores there is a branch on `_isnan_` that zeroes every
    vector which is subsequently stored / copied out, and calcVarExpressed does not divide by a zero total variance."""
    R = chk.rule('DG.null-component', 'after an `is NaN` exit of a NIPALS iteration every vector stored to the model or copied to the caller is zeroed '
                 'under an `_isnan_` test first (a null component is stored as zeros and the residual stays finite); the explained variance is not '
                 'computed as x/0 when the total variance is zero')
    targets = {'PCA': ('pca.c', None), 'LVCalc': ('pls.c', None)}
    for name in targets:
        f = prog.funcs.get(name)
        if f is None or f.body is None:
            chk.broke('%s not found' % name)
            continue
        nan_exits = []
        for n in walk(f.body):
            if n.get('kind') == 'IfStmt':
                c = kids(n)[0]
                from .plscheck import _resolve_flag as _rf
                # `is NaN` may hide behind integer flags:  nullpc = isnan(conv) || ...;  if (conv < eps || nullpc || iter >= cap)
                hit = _has_nan_test(c) or any(x.get('kind') == 'DeclRefExpr' and not fe.is_float_type(x) and _has_nan_test(_rf(f, x)) for x in walk(c))
                if hit and any(x.get('kind') == 'BreakStmt' for x in walk(kids(n)[1])):
                    nan_exits.append(n)
        if not nan_exits:
            chk.instance(R, '%s %s: no `is NaN` exit in the iteration (termination on a null component is C18/L.terminates)' % (f.where, name), 'undecided')
            continue
        # sanitising branches: if(_isnan_(..) ...) { DVectorSet(v, 0) ...; scalar = 0 }
        zeroed = set()
        san = None
        for n in walk(f.body):
            if n.get('kind') != 'IfStmt':
                continue
            c = kids(n)[0]
            from .plscheck import _resolve_flag, guard_kind
            c = _resolve_flag(f, c)
            if not _has_nan_test(c):
                continue
            gk_ = guard_kind(f, kids(n)[0])
            then = kids(n)[1]
            zs = set()
            only_zeroing = True
            for st in (kids(then) if then.get('kind') == 'CompoundStmt' else [then]):
                s0 = strip(st)
                if s0.get('kind') == 'CallExpr' and callee_name(s0) in ('DVectorSet', 'MatrixSet') and _lit0(call_args(s0)[1]):
                    zs.add(base_name(call_args(s0)[0]))
                elif s0.get('kind') == 'BinaryOperator' and s0.get('opcode') == '=' and _lit0(kids(s0)[1]):
                    zs.add(base_name(kids(s0)[0]))
                else:
                    only_zeroing = False
            if zs and only_zeroing:
                zeroed |= zs
                san = san or n
                if gk_ is not None and (gk_[0] or gk_[1]):
                    # the branch that turns a component into zeros is taken for more than NaN / exactly-zero norms: a component within the rank
                    # may be replaced too -- whether it can is not decided here
                    chk.broke('%s: the null-component branch at %s is also taken when %s; that this cannot replace a component within the rank is not decided' %
                              (name, f.unit.where(n), ' or '.join('`%s`' % x for x in [t_[0] for t_ in gk_[0]] + gk_[1])))
        # vectors handed out after the exit: stores into model->X / copies to parameters
        pn = {p.get('name') for p in f.params}
        handed = set()
        for n in walk(f.body):
            if n.get('kind') == 'CallExpr' and callee_name(n) == 'DVectorCopy':
                a = call_args(n)
                if base_name(a[1]) in pn:
                    handed.add(base_name(a[0]))
            if n.get('kind') == 'BinaryOperator' and n.get('opcode') == '=':
                l = exprs.text_key(kids(n)[0])
                r = strip(kids(n)[1])
                if '->data[' in l and l.split('->')[0] in pn | {'model'} and r.get('kind') == 'ArraySubscriptExpr' and fe.is_float_type(r):
                    bn = base_name(kids(strip(kids(r)[0]))[0]) if strip(kids(r)[0]).get('kind') == 'MemberExpr' else None
                    if bn and bn not in pn:
                        handed.add(bn)
        missing = sorted(h for h in handed if h not in zeroed)
        if san is None:
            chk.instance(R, '%s %s: the iteration can leave through an `is NaN` exit but nothing resets the NaN vectors' % (f.unit.where(nan_exits[0]), name), 'refuted')
            chk.violation(Finding('DG.null-component', rel(f.file), name, 'no-sanitise', f.unit.where(nan_exits[0]),
                                  '%s leaves its iteration when the convergence criterion is NaN (null component) and then stores / deflates with the '
                                  'NaN vectors %s: the residual becomes NaN and every later component and its explained variance is NaN instead of 0'
                                  % (name, sorted(handed))))
        elif missing:
            chk.instance(R, '%s %s: `%s` handed out after an `is NaN` exit without being zeroed' % (f.unit.where(san), name, ', '.join(missing)), 'refuted')
            chk.violation(Finding('DG.null-component', rel(f.file), name, 'partial:%s' % ','.join(missing), f.unit.where(san),
                                  '%s zeroes %s for a null component but also hands out %s, which may still hold NaN' % (name, sorted(zeroed), missing)))
        else:
            chk.instance(R, '%s %s: a null component (`is NaN` exit) is stored as zeros: %s zeroed before being handed out' %
                         (f.unit.where(san), name, ', '.join(sorted(handed))))
    # calcVarExpressed
    g = prog.funcs.get('calcVarExpressed')
    if g is None or g.body is None:
        chk.broke('calcVarExpressed not found')
        return
    ssn = g.params[0].get('name')
    from . import flow as _flow
    pm = _flow.parent_map(g.body)
    divs = [n for n in walk(g.body) if n.get('kind') == 'BinaryOperator' and n.get('opcode') == '/' and base_name(kids(n)[1]) == ssn]
    if not divs:
        chk.broke('calcVarExpressed: no division by the total sum of squares found')
        return
    for d in divs:
        guarded = False
        child = d
        for anc in _flow.ancestors(pm, d):
            if anc.get('kind') == 'IfStmt':
                c = strip(kids(anc)[0])
                names = {y['referencedDecl'].get('name') for y in walk(c) if y.get('kind') == 'DeclRefExpr'}
                if ssn in names and c.get('kind') == 'BinaryOperator' and c.get('opcode') in ('>', '!=', '<'):
                    guarded = True
            child = anc
        if guarded:
            chk.instance(R, '%s calcVarExpressed: the division by the total variance is guarded by a test on it' % g.unit.where(d))
        else:
            chk.instance(R, '%s calcVarExpressed divides by the total variance unguarded' % g.unit.where(d), 'refuted')
            chk.violation(Finding('DG.null-component', rel(g.file), g.name, 'div-by-ss', g.unit.where(d),
                                  'calcVarExpressed computes eigenvalue / total-sum-of-squares without testing the total: for data without any variance '
                                  '(rank 0) every explained variance is 0/0 = NaN instead of 0'))


def _has_nan_test(c):
    """_isnan_(a) is the macro (a != a); also accept calls of isnan / _isnan_"""
    for x in walk(c):
        if x.get('kind') == 'BinaryOperator' and x.get('opcode') == '!=' and exprs.text_key(kids(x)[0]) == exprs.text_key(kids(x)[1]):
            return True
        if x.get('kind') == 'CallExpr' and callee_name(x) in ('_isnan_', 'isnan', '__builtin_isnan'):
            return True
    return False


def _lit0(n):
    v = strip(n)
    if v.get('kind') == 'UnaryOperator' and v.get('opcode') in ('+', '-'):
        v = strip(kids(v)[0])
    try:
        return v.get('kind') in ('FloatingLiteral', 'IntegerLiteral') and float(v.get('value')) == 0.0
    except ValueError:
        return False
