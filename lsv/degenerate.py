"""Degenerate statistics: the column mean of a matrix that was column-centred is zero (to rounding), so a selection driven by it is
arbitrary -- in NIPALS it picks the start vector, and a constant first column then gives a null start vector although a leading
component exists.

  DG.mean-of-centred   no MatrixColAverage of a (possibly) centred matrix feeds a comparison.
"Centred" is propagated inter-procedurally: the output of MatrixPreprocess / MeanCenteredMatrix, and every parameter that
receives such a matrix at some call site."""
from . import frontend as fe
from .frontend import kids, strip, walk, callee_name, call_args
from . import exprs
from .report import Finding

CENTRING = {'MatrixPreprocess': 4, 'MeanCenteredMatrix': 1, 'TensorPreprocess': 4}      # producer -> index of the centred output argument


def rel(p):
    return p[len(fe.REPO) + 1:] if p.startswith(fe.REPO + '/') else p


def base_name(e):
    e = strip(e)
    while e.get('kind') in ('UnaryOperator', 'ParenExpr') and kids(e):
        e = strip(kids(e)[0])
    return e['referencedDecl'].get('name') if e.get('kind') == 'DeclRefExpr' else None


def run(chk, prog, units):
    R = chk.rule('DG.mean-of-centred', 'the column mean of a matrix that was centred (output of MatrixPreprocess / MeanCenteredMatrix, or a parameter '
                 'receiving one) never drives a comparison: it is zero by construction, a spread statistic is needed')
    funcs = [f for f in prog.all_funcs() if f.unit.name in units and f.body is not None]
    centred = {}          # function name -> set of variable names (locals or parameters)
    changed = True
    while changed:
        changed = False
        for f in funcs:
            cur = centred.setdefault(f.name, set())
            for cn, node in f.calls:
                a = call_args(node)
                if cn in CENTRING and len(a) > CENTRING[cn]:
                    b = base_name(a[CENTRING[cn]])
                    if b and b not in cur:
                        cur.add(b)
                        changed = True
                if cn in ('MatrixCopy', 'TensorCopy') and len(a) == 2 and base_name(a[0]) in cur:
                    b = base_name(a[1])              # a copy of a centred matrix is centred
                    if b and b not in cur:
                        cur.add(b)
                        changed = True
                g = prog.funcs.get(cn) if cn else None
                if g is not None and g.body is not None and g.unit.name in units:
                    for i2, arg in enumerate(a):
                        b = base_name(arg)
                        if b in cur and i2 < len(g.params):
                            pn = g.params[i2].get('name')
                            if pn not in centred.setdefault(g.name, set()):
                                centred[g.name].add(pn)
                                changed = True
    n = 0
    for f in funcs:
        cur = centred.get(f.name, set())
        for cn, node in f.calls:
            if cn != 'MatrixColAverage':
                continue
            a = call_args(node)
            src, dst = base_name(a[0]), base_name(a[1])
            if src not in cur:
                continue
            n += 1
            # is a cell of dst compared?
            used = None
            for x in walk(f.body):
                if x.get('kind') == 'BinaryOperator' and x.get('opcode') in ('<', '>', '<=', '>='):
                    for o in kids(x):
                        o0 = strip(o)
                        if o0.get('kind') in ('ArraySubscriptExpr', 'CallExpr') and base_name(kids(strip(kids(o0)[0]))[0] if o0.get('kind') == 'ArraySubscriptExpr' and kids(strip(kids(o0)[0])) else (call_args(o0)[0] if o0.get('kind') == 'CallExpr' and call_args(o0) else o0)) == dst:
                            used = x
            if used is None:
                chk.instance(R, '%s %s: mean of the centred matrix `%s` is computed but drives no comparison' % (f.unit.where(node), f.name, src))
            else:
                chk.instance(R, '%s %s: comparison on the mean of the centred matrix `%s`' % (f.unit.where(used), f.name, src), 'refuted')
                chk.violation(Finding('DG.mean-of-centred', rel(f.file), f.name, 'mean:%s' % src, f.unit.where(used),
                                      '%s: `%s` compares column means of `%s`, a matrix that is column-centred whenever a centring option is used: all '
                                      'those means are zero (to rounding), the selection is arbitrary (the first column wins); with a constant first '
                                      'column the start vector is null and every component comes out NaN although a leading component exists'
                                      % (f.name, f.unit.text(used)[:70], src)))
    chk.extra['centred_matrices'] = {k: sorted(v) for k, v in centred.items() if v}
    if not any(centred.values()):
        chk.broke('DG.mean-of-centred: no centred matrix was found (MatrixPreprocess outputs not recognised)')
    else:
        chk.instance(R, 'centred matrices tracked through %d function(s); %d column-mean computation(s) on them examined' % (sum(1 for v in centred.values() if v), n))
    return n
