"""E1 contract mode (C11, C12): each kernel is analysed under its frozen, hand-confirmed conformability contract
(lsv/contracts.json) and its own guards; a VIOLATION is a shape admitted by the contract for which some subscript
(or the contract of an internal callee) is refuted.  A smaller rejected-shape set is accepted silently."""
import os

from . import frontend as fe
from .shapecheck import Checker, rel
from .report import Finding

C11_FUNCS = {
    'matrix.c': ['MatrixDVectorDotProduct', 'MT_MatrixDVectorDotProduct', 'DVectorMatrixDotProduct', 'MT_DVectorMatrixDotProduct',
                 'DVectorTrasposedDVectorDotProduct', 'DVectorTransposedMatrixDivision', 'MatrixDotProduct_LOOP_UNROLLING',
                 'MatrixDotProduct_', 'MatrixDotProduct', 'RowColOuterProduct', 'MatrixTranspose', 'MatrixTrace', 'Matrixnorm',
                 'MatrixNorm', 'MatrixCovariance', 'MeanCenteredMatrix', 'PearsonCorrelMatrix', 'SpearmanCorrelMatrix',
                 'MatrixColAverage', 'MatrixRowAverage', 'MatrixColSDEV', 'MatrixColRMS', 'MatrixColVar', 'MatrixColDescStat',
                 'MatrixColumnMinMax', 'MatrixSort', 'MatrixReverseSort', 'MatrixRowCenterScaling', 'MatrixSVNScaling',
                 'Matrix2LogMatrix', 'Matrix2SquareMatrix', 'Matrix2SQRTMatrix', 'Matrix2ABSMatrix', 'GenIdentityMatrix',
                 'MatrixGetMaxValueIndex', 'MatrixGetMinValueIndex'],
    'vector.c': ['DVectorDVectorDotProd', 'DvectorModule', 'DVectNorm', 'DVectorDVectorDiff', 'DVectorDVectorSum', 'DVectorMinMax',
                 'DVectorMean', 'DVectorSDEV', 'DVectorMedian'],
    'tensor.c': ['TransposedTensorDVectorProduct', 'DvectorTensorDotProduct', 'TensorMatrixDotProduct', 'TensorMatrixDotProduct2',
                 'KronekerProductVectorMatrix', 'TensorColAverage', 'TensorColSDEV'],
}
C12_FUNCS = {
    'matrix.c': ['MatrixLUInversion', 'MatrixInversion', 'MatrixPseudoinversion', 'MatrixMoorePenrosePseudoinverse',
                 'MatrixDeterminant', 'SVD', 'conv2matrix', 'SVDlapack', 'EVectEval', 'QRMatrixVectNorm'],
    'algebra.c': ['SolveLSE', 'OrdinaryLeastSquares'],
}


def run(chk, prog, funcs, dom=3):
    R = chk.rule('K.bounds', 'under its conformability contract every subscript of the kernel is in range for every shape, and '
                 'every internal call establishes the contract of its callee')
    ck = Checker(prog, dom=dom)
    nfun = 0
    for unit, names in funcs.items():
        for name in names:
            f = prog.funcs.get(name)
            if f is None:
                chk.broke('contract mode: kernel %s not found' % name)
                continue
            nfun += 1
            pre = ck.contracts.get(name, {}).get('pre', [])
            eng = ck.analyse(f, pre)
            seen = set()
            for ob in eng.obligs.values():
                desc = '%s %s: %s [%s]%s' % (ob.where, name, ob.text, ob.kind.split(':')[0], (' under ' + '; '.join(pre)) if pre else '')
                if ob.status == 'PROVED':
                    chk.instance(R, desc)
                elif ob.status == 'UNDECIDED':
                    chk.instance(R, desc + ' ' + ob.detail, 'undecided')
                else:
                    chk.instance(R, desc + ' ' + ob.detail, 'refuted')
                    key = ob.text
                    if key in seen:
                        continue
                    seen.add(key)
                    what = ('the call does not establish the callee contract: ' if ob.kind.startswith('contract:') else '')
                    chk.violation(Finding('K.contraction' if ob.kind == 'contraction' else 'K.bounds', rel(f.file), name, ob.text, ob.where,
                                          '%s: %s`%s`: %s%s' % (name, what, ob.text, ob.detail,
                                                                 (' (shape admitted by the contract: %s)' % '; '.join(pre)) if pre else ''),
                                          witness=ob.witness))
    # preconditions recorded as "checked" must really end in a clean abort inside the kernel
    Rc = chk.rule('K.checked', 'a precondition recorded as enforced by the kernel itself: every path on which it does not hold '
                  'reaches abort() before any exit, with no refuted subscript on the way')
    from .shapecheck import parse_pre
    for unit, names in funcs.items():
        for name in names:
            for ps in ck.contracts.get(name, {}).get('checked', []):
                f = prog.funcs.get(name)
                if f is None:
                    continue
                polys = parse_pre(ps)
                # negation of (p1 >= 0 and p2 >= 0 ...): some pi <= -1
                ok = True
                for pl in polys:
                    def tweak(eng, st, pl=pl):
                        st.add_fact(-pl - 1)
                    eng = ck.analyse(f, ck.contracts.get(name, {}).get('pre', []), entry=tweak, register=False)
                    if eng.exit_states or any(ob.status == 'REFUTED' for ob in eng.obligs.values()):
                        ok = False
                if ok:
                    chk.instance(Rc, '%s aborts cleanly whenever not (%s)' % (name, ps))
                else:
                    chk.instance(Rc, '%s can return or index out of range although not (%s)' % (name, ps), 'refuted')
                    chk.violation(Finding('K.checked', rel(f.file), name, 'checked:' + ps, f.where,
                                          '%s is recorded to abort when `%s` fails, but a path returns or indexes out of range' % (name, ps)))
    chk.extra['kernels'] = nfun
    chk.extra['contracts_used'] = {n: ck.contracts[n]['pre'] for u in funcs.values() for n in u if n in ck.contracts and ck.contracts[n].get('pre')}
    return ck
