"""E8 offsets: class label <-> class index offset discipline in lda.c, plus the generic
dead-input / overwritten-store dataflow rules (serves C08).

Every small integer is abstracted to  Index + off  where `off` is a polynomial over cs = class_start
(cs in {0,1};  Label = Index + cs).  Checks: comparisons between a label-valued and an index-valued side
need equal offsets in that branch; stores into label sinks need offset cs; subscripts of class-indexed
dimensions need offset 0."""
import os
import re

from . import frontend as fe
from .frontend import kids, strip, walk, callee_name, call_args
from . import exprs, flow
from .program import is_assign, is_incdec, lvalue_base
from .report import Finding
from .sym import Poly

CS = 'cs'
# (function, parameter index) whose cells hold class labels; sinks must be stored with labels
LABEL_PARAMS = {'LDA': {1}, 'LDAPrediction': {5}, 'LDAError': {1}, 'LDAMulticlassStatistics': {0, 1}}
LABEL_OUT = {'LDAPrediction': 5}            # callee parameter that returns labels: binds caller locals
CS_FORCED = {'LDAMulticlassStatistics': 0}  # "labels numbered from 0" (property text)
# LDAMODEL fields whose given dimension is indexed by class index
CLASS_DIMS = {('mu', 'row'), ('fmean', 'row'), ('fsdev', 'row'), ('pprob', 'size'), ('features', 'order'), ('mnpdf', 'order')}
FUNCS = ['LDA', 'LDAPrediction', 'LDAError', 'LDAMulticlassStatistics']


def rel(p):
    return os.path.relpath(p, fe.REPO)


class Ctx:
    def __init__(self, prog, f):
        self.prog, self.f = prog, f
        self.pm = flow.parent_map(f.body)
        self.pidx = {p['id']: i for i, p in enumerate(f.params)}
        self.defs = {}
        for n in walk(f.body):
            if is_assign(n) and n.get('opcode') == '=':
                l = strip(kids(n)[0])
                if l.get('kind') == 'DeclRefExpr':
                    self.defs.setdefault(l['referencedDecl']['id'], []).append((n, kids(n)[1]))
            if n.get('kind') == 'VarDecl' and kids(n):
                self.defs.setdefault(n['id'], []).append((n, kids(n)[-1]))
        # label containers: parameters + locals bound to a label-out parameter of a callee
        self.label_ids = {p['id'] for i, p in enumerate(f.params) if i in LABEL_PARAMS.get(f.name, ())}
        for cn, node in f.calls:
            if cn in LABEL_OUT:
                a = call_args(node)
                if LABEL_OUT[cn] < len(a):
                    vid = fe.ref_id(a[LABEL_OUT[cn]])
                    if vid:
                        self.label_ids.add(vid)
        # allocations with a class-count extent
        self.class_dims = set()       # (var id, dim)
        for cn, node in f.calls:
            a = call_args(node)
            spec = {'NewUIVector': {1: 'size'}, 'NewDVector': {1: 'size'}, 'DVectorResize': {1: 'size'},
                    'UIVectorResize': {1: 'size'}, 'NewMatrix': {1: 'row', 2: 'col'}, 'ResizeMatrix': {1: 'row', 2: 'col'},
                    'NewTensor': {1: 'order'}}.get(cn)
            if spec and a:
                t = strip(a[0])
                if t.get('kind') == 'UnaryOperator' and t.get('opcode') == '&':
                    t = strip(kids(t)[0])
                vid = fe.ref_id(t)
                for i, d in spec.items():
                    if vid and i < len(a) and self.is_nclass(a[i]):
                        self.class_dims.add((vid, d))
        # cs facts learned from where class_start is assigned:  key(cond) -> {polarity: value}
        self.cs_by_cond = {}
        for n in walk(f.body):
            if is_assign(n) and n.get('opcode') == '=':
                l = strip(kids(n)[0])
                if l.get('kind') == 'MemberExpr' and l.get('name') == 'class_start':
                    v = fe.int_value(kids(n)[1])
                    child = n
                    for anc in flow.ancestors(self.pm, n):
                        if anc.get('kind') == 'IfStmt':
                            c, t, e = flow.if_parts(anc)
                            pol = self._inside(t, n)
                            self.cs_by_cond.setdefault(exprs.text_key(c), {})[pol] = v
                            break
        self._busy = set()

    def _inside(self, root, n):
        return any(x is n for x in walk(root)) if root is not None else False

    def is_nclass(self, e):
        e = strip(e)
        if e.get('kind') == 'MemberExpr' and e.get('name') == 'nclass':
            return True
        if e.get('kind') == 'MemberExpr' and e.get('name') in ('row', 'col', 'size', 'order'):
            c = strip(kids(e)[0])
            if c.get('kind') == 'MemberExpr' and (c.get('name'), e['name']) in CLASS_DIMS:
                return True
            vid = fe.ref_id(c)
            if vid and (vid, e['name']) in self.class_dims:
                return True
        if e.get('kind') == 'DeclRefExpr' and e['referencedDecl'].get('kind') == 'VarDecl':
            vid = e['referencedDecl']['id']
            ds = self.defs.get(vid, [])
            return bool(ds) and all(self.is_nclass(r) for _, r in ds)
        if e.get('kind') == 'CallExpr' and callee_name(e) == 'getNClasses':
            return True
        return False

    # branch facts on cs at a node
    def cs_at(self, node):
        if self.f.name in CS_FORCED:
            return CS_FORCED[self.f.name]
        child = node
        for anc in flow.ancestors(self.pm, node):
            if anc.get('kind') == 'IfStmt':
                c, t, e = flow.if_parts(anc)
                pol = child is t
                if child is t or child is e:
                    k = exprs.text_key(c)
                    if k in self.cs_by_cond and pol in self.cs_by_cond[k]:
                        return self.cs_by_cond[k][pol]
                    cs = strip(c)
                    if cs.get('kind') == 'BinaryOperator' and cs.get('opcode') in ('==', '!='):
                        a, b = kids(cs)
                        for x, y in ((a, b), (b, a)):
                            xs = strip(x)
                            if xs.get('kind') == 'MemberExpr' and xs.get('name') == 'class_start' and fe.int_value(y) is not None:
                                v = fe.int_value(y)
                                eq = (cs['opcode'] == '==') == pol
                                return v if eq else 1 - v
            child = anc
        return None

    def is_label_cell(self, e):
        """X->data[i][j] with X a label container"""
        e = strip(e)
        while e.get('kind') == 'ArraySubscriptExpr':
            e = strip(kids(e)[0])
        if e.get('kind') == 'MemberExpr' and e.get('name') == 'data':
            return fe.ref_id(kids(e)[0]) in self.label_ids
        return False

    def value(self, e, at):
        """('I', Poly off) | ('num', Poly) | None"""
        e = strip(e)
        k = e.get('kind')
        if k == 'IntegerLiteral':
            return ('num', Poly.const(int(e['value'])))
        if k == 'UnaryOperator' and e.get('opcode') == '-':
            v = self.value(kids(e)[0], at)
            return ('num', -v[1]) if v and v[0] == 'num' else None
        if k == 'MemberExpr' and e.get('name') == 'class_start':
            return ('num', Poly.atom(CS))
        if k == 'ArraySubscriptExpr' and self.is_label_cell(e):
            return ('I', Poly.atom(CS))
        if k == 'BinaryOperator' and e.get('opcode') in ('+', '-'):
            a, b = (self.value(x, at) for x in kids(e))
            if a is None or b is None:
                return None
            sgn = 1 if e['opcode'] == '+' else -1
            if a[0] == 'I' and b[0] == 'num':
                return ('I', a[1] + b[1] * sgn)
            if a[0] == 'num' and b[0] == 'I' and sgn == 1:
                return ('I', a[1] + b[1])
            if a[0] == 'num' and b[0] == 'num':
                return ('num', a[1] + b[1] * sgn)
            return None
        if k == 'DeclRefExpr':
            d = e['referencedDecl']
            vid = d['id']
            # loop variable over the class count
            for lp in flow.enclosing_loops(self.pm, at):
                ind = flow.induction(lp)
                if ind and ind['var'].endswith('#' + vid):
                    if self.is_nclass(ind['bound_expr']) and ind['op'] == '<':
                        return ('I', Poly.const(0))
                    return None
            if vid in self._busy:
                return None
            self._busy.add(vid)
            try:
                return self.var_value(vid, at)
            finally:
                self._busy.discard(vid)
        return None

    def var_value(self, vid, at):
        ds = self.defs.get(vid, [])
        if not ds:
            return None
        # the "pos" idiom: constants assigned in the two arms of a test on class_start
        vals = []
        for (node, rhs) in ds:
            v = self.value(rhs, node)
            if v is None:
                return None
            cs = self.cs_at(node)
            vals.append((v, cs))
        if all(v[0] == 'num' and v[1].is_const() for v, cs in vals) and len(vals) == 2 and \
                {cs for _, cs in vals} == {0, 1}:
            c0 = [v[1].const_value() for v, cs in vals if cs == 0][0]
            c1 = [v[1].const_value() for v, cs in vals if cs == 1][0]
            return ('num', Poly.const(c0) + Poly.atom(CS) * (c1 - c0))
        kinds = {v[0] for v, _ in vals}
        if kinds == {'I'} or kinds == {'I', 'num'}:
            offs = set()
            for v, cs in vals:
                if v[0] == 'I':
                    offs.add(v[1])
                elif not v[1].is_const():
                    return None
                # a literal initialiser (argmax = 0) is a valid index with offset 0
                else:
                    offs.add(Poly.const(0))
            return ('I', offs.pop()) if len(offs) == 1 else None
        if kinds == {'num'} and len({v[1] for v, _ in vals}) == 1:
            return vals[0][0]
        return None


def diff_witness(d, cs_fact):
    """cs value (admissible in this branch) for which the offset difference d(cs) is non-zero; None if always zero"""
    for cs in ([cs_fact] if cs_fact is not None else [0, 1]):
        if d.eval({a: cs for a in d.atoms()}) != 0:
            return cs
    return None


def run(chk, prog):
    R_cmp = chk.rule('OF.compare', 'a comparison between a class label and a class index uses label = index + class_start in '
                     'that branch (label == k under labels-from-0, label == k+1 under labels-from-1, label+pos == k, ...)')
    R_sink = chk.rule('OF.label-sink', 'a value stored as a predicted label is  class index + class_start')
    R_sub = chk.rule('OF.index-subscript', 'a dimension indexed by class (rows of mu/fmean/fsdev, pprob, columns of the score '
                     'matrix, tp/fp/fn/tn) is subscripted by a class index with offset 0')
    for name in FUNCS:
        f = prog.funcs.get(name)
        if f is None:
            chk.broke('offsets: %s not found' % name)
            continue
        cx = Ctx(prog, f)
        for n in walk(f.body):
            k = n.get('kind')
            if k == 'BinaryOperator' and n.get('opcode') in ('==', '!='):
                a, b = kids(n)
                va, vb = cx.value(a, n), cx.value(b, n)
                if va and vb and va[0] == 'I' and vb[0] == 'I':
                    lab = cx.is_label_cell(a) or cx.is_label_cell(b) or any(cx.is_label_cell(x) for x in walk(n))
                    if not lab:
                        continue
                    d = va[1] - vb[1]
                    w = diff_witness(d, cx.cs_at(n))
                    desc = '%s %s: %s  [%s vs %s, cs=%s]' % (f.unit.where(n), name, f.unit.text(n), va[1], vb[1], cx.cs_at(n))
                    if w is None:
                        chk.instance(R_cmp, desc)
                    else:
                        chk.instance(R_cmp, desc, 'refuted')
                        chk.violation(Finding('OF.compare', rel(f.file), name, exprs.text_key(n), f.unit.where(n),
                                              '`%s` compares index%+d with index%+d when class_start = %d: the two sides denote different classes'
                                              % (f.unit.text(n), va[1].eval({CS: w}), vb[1].eval({CS: w}), w), witness={'class_start': w}))
            if is_assign(n) and n.get('opcode') == '=' and cx.is_label_cell(kids(n)[0]) and f.name not in CS_FORCED:
                v = cx.value(kids(n)[1], n)
                desc = '%s %s: %s' % (f.unit.where(n), name, f.unit.text(n))
                if v is None or v[0] != 'I':
                    chk.instance(R_sink, desc + ' (value not an index expression)', 'undecided')
                else:
                    d = v[1] - Poly.atom(CS)
                    w = diff_witness(d, cx.cs_at(n))
                    if w is None:
                        chk.instance(R_sink, desc + '  [index + %s]' % v[1])
                    else:
                        chk.instance(R_sink, desc, 'refuted')
                        chk.violation(Finding('OF.label-sink', rel(f.file), name, exprs.text_key(kids(n)[1]), f.unit.where(n),
                                              '`%s` stores class index%+d as the label when class_start = %d; the label of class index i is i%+d'
                                              % (f.unit.text(n), v[1].eval({CS: w}), w, w), witness={'class_start': w}))
            if k == 'ArraySubscriptExpr':
                base, index = kids(n)
                b = strip(base)
                dim = None
                cont = None
                if b.get('kind') == 'ArraySubscriptExpr':
                    bb = strip(kids(b)[0])
                    if bb.get('kind') == 'MemberExpr' and bb.get('name') == 'data':
                        cont, dim = kids(bb)[0], 'col'
                elif b.get('kind') == 'MemberExpr' and b.get('name') == 'data':
                    cont = kids(b)[0]
                    ct = (strip(cont, casts=False).get('type') or {}).get('qualType', '')
                    dim = 'row' if 'matrix' in ct else 'size'
                elif b.get('kind') == 'MemberExpr' and b.get('name') == 'm':
                    cont, dim = kids(b)[0], 'order'
                if cont is None:
                    continue
                cs_ = strip(cont)
                is_class_dim = (cs_.get('kind') == 'MemberExpr' and (cs_.get('name'), dim) in CLASS_DIMS) or \
                               (fe.ref_id(cs_) and (fe.ref_id(cs_), dim) in cx.class_dims)
                if not is_class_dim:
                    continue
                v = cx.value(index, n)
                desc = '%s %s: %s' % (f.unit.where(n), name, f.unit.text(n))
                if v is None or v[0] != 'I':
                    chk.instance(R_sub, desc + ' (subscript not an index expression)', 'undecided')
                    continue
                w = diff_witness(v[1], cx.cs_at(n))
                if w is None:
                    chk.instance(R_sub, desc)
                else:
                    chk.instance(R_sub, desc, 'refuted')
                    chk.violation(Finding('OF.index-subscript', rel(f.file), name, exprs.text_key(n), f.unit.where(n),
                                          '`%s` subscripts a per-class dimension with class index%+d when class_start = %d'
                                          % (f.unit.text(n), v[1].eval({CS: w}), w), witness={'class_start': w}))


# ---------------------------------------------------------------------------------------
# generic dataflow rules

ELEMENT_WRITERS = ('Set', 'Append', 'Copy', 'set', 'Resize', 'Extend', 'Sort')


def dead_input(chk, prog, funcs):
    R = chk.rule('DF.dead-input', 'a freshly allocated local container is not handed to a routine that only reads it '
                 'before any element has been stored into it')
    from .ioflow import writes_through_param
    for name in funcs:
        f = prog.funcs.get(name)
        if f is None:
            continue
        allocs = {}
        for cn, node in f.calls:
            if cn and cn.startswith('New') and call_args(node):
                t = strip(call_args(node)[0])
                if t.get('kind') == 'UnaryOperator' and t.get('opcode') == '&':
                    vid = fe.ref_id(kids(t)[0])
                    if vid:
                        allocs[vid] = node
        for vid, anode in allocs.items():
            stored = False
            for n in walk(f.body):
                if (is_assign(n) or is_incdec(n)):
                    root, through = lvalue_base(kids(n)[0])
                    if root and root.get('id') == vid and through:
                        stored = True
            uses = []
            for cn, node in f.calls:
                if node is anode:
                    continue
                g = prog.resolve(f, cn) if cn else None
                for j, a in enumerate(call_args(node)):
                    if fe.ref_id(a) == vid:
                        if g is not None and g.body is not None:
                            if j in writes_through_param(prog, g):
                                stored = True
                            elif not (cn.startswith('Del') or cn.startswith('Print')):
                                uses.append((cn, node))
            vname = f.unit.by_id.get(vid, {}).get('name', '?')
            if uses and not stored:
                cn, node = uses[0]
                chk.instance(R, '%s: %s is allocated and read by %s but never filled' % (name, vname, cn), 'refuted')
                chk.violation(Finding('DF.dead-input', rel(f.file), name, 'var:' + vname, f.unit.where(node),
                                      'local container %s is allocated in %s and passed to %s, which only reads it, but no element '
                                      'is ever stored into it' % (vname, name, cn)))
            elif uses:
                chk.instance(R, '%s: %s is filled before being read by %s' % (name, vname, uses[0][0]))


def overwritten_store(chk, prog, funcs):
    R = chk.rule('DF.overwritten-store', 'no lvalue is stored twice on every path with no read in between (the first store '
                 'would be dead: usually a copy-paste slip naming the wrong destination)')
    for name in funcs:
        f = prog.funcs.get(name)
        if f is None:
            continue
        for blk in [n for n in walk(f.body) if n.get('kind') == 'CompoundStmt']:
            st = kids(blk)
            last = {}     # lvalue key -> (stmt index, node)
            for i, s in enumerate(st):
                stores = all_paths_store(s)
                reads = {exprs.text_key(x) for x in walk(s) if x.get('kind') in ('ArraySubscriptExpr', 'MemberExpr', 'DeclRefExpr')
                         and not is_store_target(s, x)}
                for key in list(last):
                    if key in reads or any(key in r for r in reads if False):
                        del last[key]
                for key, node in stores.items():
                    if key in last:
                        j, first = last[key]
                        chk.instance(R, '%s: %s stored at %s and again at %s without a read' % (name, key, f.unit.where(first), f.unit.where(node)), 'refuted')
                        chk.violation(Finding('DF.overwritten-store', rel(f.file), name, key, f.unit.where(node),
                                              'every path stores `%s` at %s and again here with no read in between: the first store is dead'
                                              % (key, f.unit.where(first))))
                    last[key] = (i, node)
                # calls may read anything reachable: be conservative
                if any(x.get('kind') == 'CallExpr' for x in walk(s)):
                    last = {k: v for k, v in last.items() if k in stores}
            if st:
                chk.instance(R, '%s: block at %s has no repeated dead store' % (name, f.unit.where(blk)))


def is_store_target(stmt, x):
    for n in walk(stmt):
        if is_assign(n) and n.get('opcode') == '=' and strip(kids(n)[0]) is x:
            return True
    return False


def all_paths_store(s):
    """{lvalue key: node} stored (plain =) on every path through statement s"""
    k = s.get('kind')
    if is_assign(s) and s.get('opcode') == '=':
        l = strip(kids(s)[0])
        if l.get('kind') == 'ArraySubscriptExpr':      # container cells only: a dead scalar initialiser is harmless
            return {exprs.text_key(l): s}
        return {}
    if k == 'CompoundStmt':
        out = {}
        for x in kids(s):
            out.update(all_paths_store(x))
        return out
    if k == 'IfStmt':
        c, t, e = flow.if_parts(s)
        if e is None:
            return {}
        a, b = all_paths_store(t), all_paths_store(e)
        return {key: a[key] for key in a if key in b}
    return {}


# ---------------------------------------------------------------------------------------
# arg-max idiom: the running reference of an arg-max/arg-min search is an element of the searched sequence or a true bound

LOWER_BOUNDS = re.compile(r'^\(?\s*-\s*\(?\s*(DBL_MAX|FLT_MAX|LDBL_MAX|HUGE_VAL|INFINITY|__builtin_inf\w*\(\)|__builtin_huge_val\w*\(\))') if False else None


def argmax_rule(chk, prog, funcs, stored=None):
    import re
    from . import argmaxscalar
    R = chk.rule('OF.argmax', 'in an arg-max search `if(S[j] > ref) best_index = j` the reference is the element at the current best '
                 'index, or a running value that starts from an element of S or from -DBL_MAX/-INFINITY (never from a value some score '
                 'may lie below, such as 0 or DBL_MIN) and is updated together with the index')
    lower = re.compile(r'^\(*\s*-\s*\(*\s*(DBL_MAX|FLT_MAX|LDBL_MAX|HUGE_VAL|INFINITY)')
    upper = re.compile(r'^\(*\s*\+?\s*\(*\s*(DBL_MAX|FLT_MAX|LDBL_MAX|HUGE_VAL|INFINITY)')
    for name in funcs:
        f = prog.funcs.get(name)
        if f is None:
            continue
        pm = flow.parent_map(f.body)
        for n in walk(f.body):
            if n.get('kind') != 'IfStmt':
                continue
            c, t, e = flow.if_parts(n)
            cs = strip(c)
            if not (cs.get('kind') == 'BinaryOperator' and cs.get('opcode') in ('>', '>=', '<', '<=')):
                continue
            a, b = kids(cs)
            if not (fe.is_float_type(strip(a, casts=False)) and fe.is_float_type(strip(b, casts=False))):
                continue
            # then-branch records the loop variable as the new best index:  v = j
            loops = flow.enclosing_loops(pm, n)
            ind = flow.induction(loops[0]) if loops else None
            if not ind:
                continue
            jid = ind['var'].split('#')[1]
            best_idx = None
            for x in walk(t):
                if is_assign(x) and x.get('opcode') == '=' and fe.ref_id(kids(x)[1]) == jid and strip(kids(x)[0]).get('kind') == 'DeclRefExpr':
                    best_idx = strip(kids(x)[0])['referencedDecl']
            if best_idx is None:
                continue
            # which side is the candidate S[..j..] and which the reference
            def mentions(expr, did):
                return any(y.get('kind') == 'DeclRefExpr' and y['referencedDecl']['id'] == did for y in walk(expr))
            if mentions(a, jid) and not mentions(b, jid):
                cand, ref, op = a, b, cs['opcode']
            elif mentions(b, jid) and not mentions(a, jid):
                cand, ref, op = b, a, {'>': '<', '>=': '<=', '<': '>', '<=': '>='}[cs['opcode']]
            else:
                continue
            maximise = op in ('>', '>=')
            desc = '%s %s: %s -> %s = %s' % (f.unit.where(n), name, f.unit.text(c)[:60], best_idx['name'], ind['var'].split('#')[0])
            rs = strip(ref)
            ok, why = False, ''
            if rs.get('kind') == 'ArraySubscriptExpr' and mentions(rs, best_idx['id']):
                ok = True          # S[best]: always an element of the sequence
            elif rs.get('kind') == 'DeclRefExpr':
                rid = rs['referencedDecl']['id']
                defs = []
                for x in walk(f.body):
                    if is_assign(x) and x.get('opcode') == '=' and fe.ref_id(kids(x)[0]) == rid:
                        defs.append((x, kids(x)[1]))
                    if x.get('kind') == 'VarDecl' and x.get('id') == rid and kids(x):
                        defs.append((x, kids(x)[-1]))
                updated = any(any(y is dnode for y in walk(t)) for dnode, _ in defs)
                bad = []
                for dnode, rhs in defs:
                    r2 = strip(rhs)
                    txt = f.unit.text(rhs)
                    if r2.get('kind') == 'ArraySubscriptExpr' or (r2.get('kind') == 'CallExpr' and 'get' in (callee_name(r2) or '')):
                        continue
                    if (lower if maximise else upper).match(txt):
                        continue
                    bad.append((dnode, txt))
                if bad:
                    why = 'the running %s `%s` is initialised with `%s`, which is not %s every score' % (
                        'maximum' if maximise else 'minimum', rs['referencedDecl']['name'], bad[0][1][:40], 'below' if maximise else 'above')
                elif not updated:
                    why = 'the running reference `%s` is not updated when a better element is found' % rs['referencedDecl']['name']
                else:
                    ok = True
            else:
                why = 'the reference `%s` is neither the element at the best index nor a running value' % f.unit.text(ref)[:40]
            if ok:
                chk.instance(R, desc)
            else:
                chk.instance(R, desc + ': ' + why, 'refuted')
                chk.violation(Finding('OF.argmax', rel(f.file), name, 'argmax:' + best_idx['name'], f.unit.where(n),
                                      '%s: arg-%s search over `%s`: %s; an object whose scores all lie on the other side keeps the initial index'
                                      % (name, 'max' if maximise else 'min', f.unit.text(cand)[:50], why)))
    # scalar form `if (v > ref) { ref = v; best = j; }`: seed of the reference and (where named) the published score, see argmaxscalar.py
    argmaxscalar.run(chk, prog, funcs, R, stored=stored)


def per_index_values(chk, prog, funcs):
    """a value stored once per iteration of a counting loop into a result container (append, or cell indexed by the loop variable)
    must depend on the loop variable: a loop-invariant (stale) value gives every class / row the same entry.
    Literal constants are exempt (explicit constant fill)."""
    R = chk.rule('DF.per-index', 'inside a counting loop every non-constant value appended to, or stored at the loop index of, a result container '
                 'depends on the loop variable (directly, through a variable assigned in the same iteration, or through a container filled in '
                 'the same iteration from loop-indexed data)')
    APPENDS = {'DVectorAppend': (0, 1), 'UIVectorAppend': (0, 1), 'IVectorAppend': (0, 1), 'MatrixAppendRow': (0, 1), 'MatrixAppendCol': (0, 1),
               'MatrixAppendUIRow': (0, 1), 'MatrixAppendUICol': (0, 1), 'StrVectorAppend': (0, 1), 'DVectorListAppend': (0, 1), 'TensorAppendMatrix': (0, 1)}
    n_inst = 0
    for name in funcs:
        f = prog.funcs.get(name)
        if f is None or f.body is None:
            chk.broke('%s not found' % name)
            continue
        for loop in walk(f.body):
            if loop.get('kind') != 'ForStmt':
                continue
            ind = flow.induction(loop)
            if ind is None:
                continue
            var = ind['var'].split('#')[0]
            init, cond, inc, body = flow.for_parts(loop)
            # dependence closure inside the body
            dep = {var}
            changed = True
            assigns = []
            calls = []
            for x in walk(body):
                k = x.get('kind')
                if k in ('BinaryOperator', 'CompoundAssignOperator') and (x.get('opcode') or '').endswith('=') and x.get('opcode') not in ('==', '!=', '<=', '>='):
                    assigns.append(x)
                elif k == 'VarDecl' and kids(x):
                    assigns.append(x)
                elif k == 'CallExpr':
                    calls.append(x)

            def names(e):
                return {y['referencedDecl'].get('name') for y in walk(e) if y.get('kind') == 'DeclRefExpr'}

            def base_name(e):
                e = strip(e)
                while e.get('kind') in ('ArraySubscriptExpr', 'MemberExpr', 'UnaryOperator', 'ParenExpr'):
                    e = strip(kids(e)[0])
                return e['referencedDecl'].get('name') if e.get('kind') == 'DeclRefExpr' else None
            pm = flow.parent_map(body)

            def control_names(node):
                out = set()
                for anc in flow.ancestors(pm, node):
                    if anc.get('kind') == 'IfStmt':
                        out |= names(kids(anc)[0])
                    elif anc.get('kind') in ('ForStmt', 'WhileStmt'):
                        for c_ in kids(anc)[:-1]:
                            if c_.get('kind'):
                                out |= names(c_)
                return out
            while changed:
                changed = False
                for a in assigns:
                    if a.get('kind') == 'VarDecl':
                        tgt, src = a.get('name'), names(kids(a)[-1]) | control_names(a)
                    else:
                        tgt, src = base_name(kids(a)[0]), names(kids(a)[1]) | (names(kids(a)[0]) - {base_name(kids(a)[0])}) | control_names(a)
                    if tgt and tgt not in dep and src & dep:
                        dep.add(tgt)
                        changed = True
                for c in calls:
                    args = call_args(c)
                    if any(names(x) & dep for x in args):
                        # every pointer argument may be filled from the loop-indexed ones
                        for x in args:
                            q = fe.qual(strip(x, casts=False))
                            bn = base_name(x)
                            if bn and ('*' in q or strip(x).get('opcode') == '&') and bn not in dep:
                                dep.add(bn)
                                changed = True
            # stores per iteration
            for c in calls:
                cn = callee_name(c)
                if cn not in APPENDS:
                    continue
                # only appends executed once per iteration of THIS loop (not inside a nested loop)
                if any(c in list(walk(l2)) for l2 in walk(body) if l2.get('kind') == 'ForStmt'):
                    continue
                args = call_args(c)
                val = args[APPENDS[cn][1]]
                v0 = strip(val)
                if v0.get('kind') in ('IntegerLiteral', 'FloatingLiteral') or (v0.get('kind') == 'UnaryOperator' and strip(kids(v0)[0]).get('kind', '').endswith('Literal')):
                    continue
                n_inst += 1
                desc = '%s %s: %s' % (f.unit.where(c), name, f.unit.text(c)[:90])
                if any(y.get('kind') == 'CallExpr' and callee_name(y) not in ('sqrt', 'fabs', 'square', 'log', 'exp', 'pow') for y in walk(val)):
                    chk.instance(R, desc + ': value produced by a call, dependence not decided', 'undecided')
                    continue
                if names(val) & dep:
                    chk.instance(R, desc + ': depends on `%s`' % var)
                else:
                    chk.instance(R, desc + ': loop-invariant', 'refuted')
                    chk.violation(Finding('DF.per-index', rel(f.file), name, 'invariant:%s' % exprs.text_key(args[0]), f.unit.where(c),
                                          '%s: `%s` appends `%s` once per iteration of the loop over `%s`, but that value does not depend on `%s` '
                                          '(its variables %s are not assigned in the loop from loop-indexed data): every entry receives the same, '
                                          'stale value' % (name, f.unit.text(c)[:80], f.unit.text(val)[:60], var, var, sorted(names(val)))))
    return n_inst


def sibling_label_arms(chk, prog, funcs):
    """code that exists once per numbering convention (labels from 0 / labels from 1) must be the same code up to the label offset"""
    R = chk.rule('OF.sibling-arms', 'the two arms of a test on the first label value (class numbering from 0 / from 1) are structurally identical '
                 'once every label comparison `label == k + 1` of the from-1 arm is read as `label == k`')
    n_inst = 0
    for name in funcs:
        f = prog.funcs.get(name)
        if f is None or f.body is None:
            continue
        for n in walk(f.body):
            if n.get('kind') != 'IfStmt':
                continue
            c, t, e = flow.if_parts(n)
            if e is None:
                continue
            cs = strip(c)
            if not (cs.get('kind') == 'BinaryOperator' and cs.get('opcode') == '==' and fe.int_value(kids(cs)[1]) == 0):
                continue
            ka, kb = exprs.text_key(t), exprs.text_key(e)
            # only arms that compare labels with the loop class index
            import re as _re
            cmps_b = _re.findall(r'==\((\w+)\+1\)\)', kb)
            if not cmps_b:
                continue
            n_inst += 1
            kb2 = kb
            for v in set(cmps_b):
                kb2 = kb2.replace('==(%s+1))' % v, '==%s)' % v)
            if ka == kb2:
                chk.instance(R, '%s %s: both numbering conventions run the same code (label test offset aside)' % (f.unit.where(n), name))
            else:
                # first difference, for the message
                i = 0
                while i < min(len(ka), len(kb2)) and ka[i] == kb2[i]:
                    i += 1
                chk.instance(R, '%s %s: arms differ' % (f.unit.where(n), name), 'refuted')
                chk.violation(Finding('OF.sibling-arms', rel(f.file), name, 'arms@%s' % exprs.text_key(c), f.unit.where(n),
                                      '%s: the code for labels starting at 0 and the code for labels starting at 1 differ beyond the label offset: '
                                      '...%s... versus ...%s...: the two numbering conventions no longer build the same per-class data' %
                                      (name, ka[max(0, i - 40):i + 50], kb2[max(0, i - 40):i + 50])))
    return n_inst


def inversion_failure_test(chk, prog, funcs):
    """MatrixInversion(A, B); <scalar s computed from a matrix>; if (... isnan(s) ...) fallback:  the matrix s is computed from is the OUTPUT B of the
    inversion (a failed inversion shows in its result), not its input A"""
    R = chk.rule('INV.failure-test', 'the test that decides whether the inverse of the pooled covariance failed (and the pseudo-inverse is used instead) '
                 'examines the result of the inversion, not the matrix that was inverted')
    from .degenerate import _has_nan_test
    for name in funcs:
        f = prog.funcs.get(name)
        if f is None or f.body is None:
            continue
        top = list(walk(f.body))
        invs = [n for n in top if n.get('kind') == 'CallExpr' and callee_name(n) == 'MatrixInversion' and len(call_args(n)) == 2]
        for inv in invs:
            a_in = f.unit.text(call_args(inv)[0]).replace(' ', '')
            a_out = f.unit.text(call_args(inv)[1]).replace(' ', '').lstrip('&')
            # the first NaN-testing `if` after the call, in source order
            after = False
            test = None
            for n in top:
                if n is inv:
                    after = True
                    continue
                if after and n.get('kind') == 'IfStmt' and _has_nan_test(kids(n)[0]) and any(
                        m.get('kind') == 'CallExpr' and callee_name(m) in ('MatrixPseudoinversion', 'MatrixMoorePenrosePseudoinverse') for m in walk(n)):
                    test = n
                    break
            if test is None:
                continue
            # the scalar that is tested, and the matrix it is computed from
            tested = set()
            for m in walk(kids(test)[0]):
                if m.get('kind') == 'DeclRefExpr' and fe.is_float_type(m):
                    tested.add(m['referencedDecl'].get('name'))
            sources = set()
            for n in top:
                tgt = None
                if n.get('kind') == 'VarDecl' and n.get('name') in tested and kids(n):
                    tgt, rhs = n.get('name'), kids(n)[-1]
                elif n.get('kind') in ('BinaryOperator', 'CompoundAssignOperator') and n.get('opcode', '').endswith('=') and n.get('opcode') not in ('==', '!=', '<=', '>=') \
                        and strip(kids(n)[0]).get('kind') == 'DeclRefExpr' and strip(kids(n)[0])['referencedDecl'].get('name') in tested:
                    tgt, rhs = strip(kids(n)[0])['referencedDecl'].get('name'), kids(n)[1]
                if tgt is None:
                    continue
                for m in walk(rhs):
                    if m.get('kind') == 'MemberExpr' and m.get('name') in ('data', 'row', 'col'):
                        sources.add(f.unit.text(kids(m)[0]).replace(' ', ''))
                    if m.get('kind') == 'CallExpr' and callee_name(m) not in ('square', 'fabs', 'sqrt'):
                        for a in call_args(m):
                            if 'matrix' in str(strip(a).get('type', {}).get('qualType', '')):
                                sources.add(f.unit.text(a).replace(' ', '').lstrip('&'))
            where = f.unit.where(test)
            if not sources:
                chk.instance(R, '%s %s: the matrix behind the tested value %s was not found' % (where, name, sorted(tested)), 'undecided')
            elif a_out in sources and a_in not in sources:
                chk.instance(R, '%s %s: the failure test reads %s, the result of MatrixInversion(%s, %s)' % (where, name, a_out, a_in, a_out))
            elif a_in in sources and a_out not in sources:
                chk.instance(R, '%s %s: the failure test reads %s, the INPUT of the inversion' % (where, name, a_in), 'refuted')
                chk.violation(Finding('INV.failure-test', rel(f.file), name, 'input-tested', where,
                                      '%s: after MatrixInversion(%s, %s) the test that switches to the pseudo-inverse is computed from %s, the matrix that was '
                                      'inverted, not from the result %s: a failed inversion (NaN / zero result, e.g. for nearly singular or small-scale '
                                      'covariances) goes unnoticed and the scores are computed with it' % (name, a_in, a_out, a_in, a_out)))
            else:
                chk.instance(R, '%s %s: the tested value is computed from %s: not decided' % (where, name, sorted(sources)), 'undecided')
