"""Verdict bookkeeping shared by every check: findings, known-findings matching,
replay files, evidence files, exit status (0 HOLD / 1 VIOLATION / 2 ANALYSIS-BROKEN)."""
import json
import os
import random
import re
import sys
import time

VERIF = os.path.dirname(os.path.dirname(os.path.abspath(__file__)))
EVID = os.environ.get('LSV_EVID') or os.path.join(VERIF, 'evidence')
KNOWN = os.path.join(VERIF, 'known_findings.json')


def load_known():
    if not os.path.exists(KNOWN):
        return {'open': [], 'fixed': []}
    return json.load(open(KNOWN))


_ID = re.compile(r'#0x[0-9a-f]+')


def scrub(x):
    """declaration ids (#0x...) make strings differ from run to run; they are dropped on output"""
    if isinstance(x, str):
        return _ID.sub('', x)
    if isinstance(x, list):
        return [scrub(v) for v in x]
    if isinstance(x, tuple):
        return tuple(scrub(v) for v in x)
    if isinstance(x, dict):
        return {scrub(k): scrub(v) for k, v in x.items()}
    return x


class Finding:
    """A refuted rule instance. `key` identifies it without line numbers:
    (rule, file, function, normalised construct)."""

    def __init__(self, rule, file, function, construct, where, message, witness=None, path=None):
        self.rule, self.file, self.function, self.construct = rule, file, function, scrub(construct)
        self.where, self.message, self.witness, self.path = where, scrub(message), scrub(witness), scrub(path)

    @property
    def key(self):
        return '%s|%s|%s|%s' % (self.rule, self.file, self.function, self.construct)

    def as_dict(self):
        return {'rule': self.rule, 'file': self.file, 'function': self.function,
                'construct': self.construct, 'where': self.where, 'message': self.message,
                'witness': self.witness, 'path': self.path, 'key': self.key}


class Check:
    def __init__(self, pid, tier, level='other'):
        self.pid, self.tier, self.level = pid, tier, level
        self.seed = int(os.environ.get('VERIF_SEED', '0') or 0)
        self.rng = random.Random(self.seed)
        self.t0 = time.time()
        self.findings = []
        self.broken = []
        self.rules = {}          # rule -> dict(text, instances, ok, samples)
        self.units = []
        self.functions = 0
        self.assumptions = []
        self.explanation = ''
        self.extra = {}
        self.info = []

    # -- rule registration ---------------------------------------------------------
    def rule(self, name, text):
        self.rules.setdefault(name, {'text': text, 'instances': 0, 'satisfied': 0, 'refuted': 0,
                                     'undecided': 0, 'samples': []})
        if text and not self.rules[name]['text']:
            self.rules[name]['text'] = text
        return name

    def instance(self, rule, desc, status='satisfied'):
        r = self.rules[rule]
        r['instances'] += 1
        r[status] += 1
        if len(r['samples']) < 6 or (status == 'refuted' and len(r['samples']) < 12):
            r['samples'].append({'instance': desc, 'status': status})

    def floor(self, rule, n):
        got = self.rules.get(rule, {'instances': 0})['instances']       # a rule that was never reached counts as zero instances
        if got < n:
            self.broken.append('rule %s matched %d instances, floor %d' % (rule, got, n))

    def violation(self, f):
        self.findings.append(f)

    def broke(self, reason):
        self.broken.append(reason)

    def note(self, s):
        self.info.append(s)

    # -- finish --------------------------------------------------------------------
    def finish(self, only=None):
        known = load_known()
        openk = {e['key']: e for e in known.get('open', []) if e.get('property') == self.pid}
        new, matched = [], []
        seen_new = set()
        for f in self.findings:
            if only and only not in f.key:
                continue
            if f.key in openk:
                matched.append(f)
            elif f.key not in seen_new:
                seen_new.add(f.key)
                new.append(f)
        os.makedirs(os.path.join(EVID, 'replay'), exist_ok=True)
        # stale replay files of this property are removed on every run
        for fn in os.listdir(os.path.join(EVID, 'replay')):
            if fn.startswith(self.pid + '-'):
                os.unlink(os.path.join(EVID, 'replay', fn))
        lines = []
        seen_known = set()
        for f in matched:
            if f.key in seen_known:
                continue
            seen_known.add(f.key)
            lines.append('KNOWN-FINDING: property=%s %s [%s] %s' % (self.pid, f.where, f.rule, f.message))
        # an undecided instance beyond those confirmed by hand on the pinned tree is not a pass
        try:
            ub = json.load(open(os.path.join(os.path.dirname(os.path.abspath(__file__)), 'undecided_baseline.json')))['undecided'].get(self.pid, {})
        except (OSError, ValueError, KeyError):
            ub = None
            self.broken.append('undecided_baseline.json missing or unreadable')
        if ub is not None and not only:
            for name, r in sorted(self.rules.items()):
                if r['undecided'] > ub.get(name, 0):
                    und = [s_['instance'] for s_ in r['samples'] if s_['status'] == 'undecided']
                    self.broken.append('rule %s left %d instance(s) undecided, %d on the pinned tree%s' %
                                       (name, r['undecided'], ub.get(name, 0), (': ' + und[-1][:160]) if und else ''))
        status = 0
        if new:
            # a refuted instance stands on its own witness even if another rule lost its anchor
            status = 1
            for i, f in enumerate(new):
                p = os.path.join(EVID, 'replay', '%s-%d.json' % (self.pid, i))
                json.dump(f.as_dict(), open(p, 'w'), indent=1)
                lines.append('%s: [%s] %s' % (f.where, f.rule, f.message) +
                             (' witness=%s' % json.dumps(f.witness) if f.witness else ''))
                lines.append('VIOLATION property=%s replay=%s' % (self.pid, p))
            for b in self.broken:
                lines.append('ANALYSIS-PARTIAL property=%s reason=%s' % (self.pid, b))
        elif self.broken:
            status = 2
            for b in self.broken:
                lines.append('ANALYSIS-BROKEN property=%s reason=%s' % (self.pid, b))
        n_inst = sum(r['instances'] for r in self.rules.values())
        n_ok = sum(r['satisfied'] for r in self.rules.values())
        samples = []
        for name, r in self.rules.items():
            for s in r['samples'][:3]:
                samples.append({'rule': name, **s})
        cov = {
            'explanation': self.explanation,
            'obligations': n_inst,
            'discharged': n_ok,
            'units_parsed': self.units,
            'functions_analysed': self.functions,
            'rules': {k: {kk: vv for kk, vv in v.items()} for k, v in self.rules.items()},
            'samples': samples or [{'note': 'no rule instance on this run'}],
            'known_findings_matched': sorted(seen_known),
            'new_findings': [f.as_dict() for f in new],
            'analysis_broken': self.broken,
            'informational': self.info[:50],
            'exhaustive': False,
        }
        cov.update(self.extra)
        ev = {'property_id': self.pid, 'tier': self.tier, 'seed': self.seed, 'level': self.level,
              'coverage': cov, 'assumptions': self.assumptions,
              'wall_s': round(time.time() - self.t0, 2), 'violations': len(new)}
        os.makedirs(EVID, exist_ok=True)
        json.dump(scrub(ev), open(os.path.join(EVID, self.pid + '.json'), 'w'), indent=1)
        for ln in lines:
            print(ln)
        print('%s %s: %d rule instances, %d satisfied, %d new finding(s), %d known, status=%s (%.1fs)' % (
            self.pid, self.tier, n_inst, n_ok, len(new), len(seen_known),
            {0: 'HOLD', 1: 'VIOLATION', 2: 'ANALYSIS-BROKEN'}[status], time.time() - self.t0))
        return status
