#!/bin/bash
# builds /repo's current working tree into /tmp/lsv-scratch/build (triage only; not used by any registered check)
set -e
B=/tmp/lsv-scratch
mkdir -p $B
cmake -G Ninja -S ${LSV_REPO:-/repo} -B $B/build -DCMAKE_BUILD_TYPE=RelWithDebInfo -DCMAKE_C_FLAGS=-Wno-error >$B/cmake.log 2>&1
cmake --build $B/build -j16 >$B/build.log 2>&1 || { tail -30 $B/build.log; exit 1; }
echo built $B/build/src/libscientific.so
