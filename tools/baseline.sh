#!/bin/bash
# Runs the repository's pinned baseline with the verification guard OFF (there is no hook,
# so this is simply the stock build).  The pinned build is RelWithDebInfo, for which the
# project's CMake does not register ctest tests; the 62 baseline names are the "<name>: OK"
# lines printed by the test executables (a failed check abort()s the executable).
set -u
REPO=${LSV_REPO:-/repo}
B=$(mktemp -d /tmp/lsv-baseline.XXXXXX)
trap 'rm -rf "$B"' EXIT
cmake -G Ninja -S "$REPO" -B "$B/build" -DCMAKE_BUILD_TYPE=RelWithDebInfo -DCMAKE_C_FLAGS=-Wno-error \
      -DCMAKE_INSTALL_PREFIX=/usr/local >"$B/cmake.log" 2>&1 || { cat "$B/cmake.log"; echo "BASELINE configure failed"; exit 2; }
cmake --build "$B/build" -j16 >"$B/build.log" 2>&1 || { tail -50 "$B/build.log"; echo "BASELINE build failed"; exit 2; }
run_one() {
  t=$1; n=$(basename "$t"); w="$2/run-$n"; mkdir -p "$w"; cd "$w"
  timeout 900 "$t" >"$w/out.txt" 2>&1; st=$?
  # testmatrix Test53 draws 9 time-seeded integers and aborts when one of them is 0 (about 4 % of wall-clock seconds, pinned
  # tree included; abort() also discards the buffered OK lines): retry a failing executable twice, a second apart
  for try in 1 2; do
    if [ "$st" != 0 ] && [ "$n" != testica ]; then sleep 2; timeout 900 "$t" >"$w/out.txt" 2>&1; st=$?; fi
  done
  echo "$st" >"$w/status"
}
export -f run_one
ls "$B"/build/src/tests/test* | xargs -P8 -I{} bash -c 'run_one {} '"$B"
rc=0; nok=0
for w in "$B"/run-*; do
  n=$(basename "$w" | sed 's/^run-//'); s=$(cat "$w/status")
  grep -a ': OK' "$w/out.txt" | sed "s/^/[$n] /"
  nok=$((nok + $(grep -a -c ': OK' "$w/out.txt")))
  echo "EXIT $n $s"
  # testica aborts in the pinned build as well (pre-existing; not among the 62 baseline names)
  if [ "$s" != 0 ] && [ "$n" != testica ]; then rc=1; echo "--- last lines of $n (exit $s):"; tail -5 "$w/out.txt"; fi
done
# every pinned baseline name must be among the OK lines
if [ -f /root/.vp/BASELINE.json ]; then
  cat "$B"/run-*/out.txt > "$B/all.txt"
  python3 - "$B/all.txt" <<'PY' || rc=1
import json, re, sys
names = json.load(open('/root/.vp/BASELINE.json'))['stable_pass']
oks = [re.sub(r'\s*:\s*OK.*$', '', l).strip() for l in open(sys.argv[1], errors='replace') if ': OK' in l]
missing = [n for n in names if n.strip() not in oks]
print('BASELINE names expected=%d found=%d missing=%s' % (len(names), len(names) - len(missing), missing))
sys.exit(1 if missing else 0)
PY
fi
echo "BASELINE ok_lines=$nok status=$rc"
exit $rc
