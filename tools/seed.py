#!/usr/bin/env python3
"""Confirm a seeded breaking change and record it under /verif/seeded/<name>/.

  tools/seed.py confirm <name> <property> <dir-with-patch.diff-and-demo> [--skip-suite]
  tools/seed.py recheck all | <name>...      (re-run the checks against recorded patches, refresh meta.json)

Steps (all in a scratch worktree of /repo HEAD under /tmp, removed afterwards):
  1. build the unchanged tree, compile the demonstration against it, run it: must exit 0;
  2. apply patch.diff, rebuild, run the demonstration: must exit non-zero;
  3. run every test executable of the patched build: all must exit 0 (testica aborts on the pinned tree too);
  4. apply the patch to /repo, run the property's quick check (and every other claimed check), undo the patch.
Writes meta.json with what was run and what each check said."""
import json
import os
import shutil
import subprocess
import sys
import tempfile
import time

VERIF = os.path.dirname(os.path.dirname(os.path.abspath(__file__)))
REPO = '/repo'


def sh(cmd, cwd=None, timeout=3600, env=None):
    r = subprocess.run(cmd, shell=True, cwd=cwd, stdout=subprocess.PIPE, stderr=subprocess.STDOUT, timeout=timeout, env=env)
    return r.returncode, r.stdout.decode(errors='replace')


def build(wt, bdir):
    rc, out = sh('cmake -G Ninja -S %s -B %s -DCMAKE_BUILD_TYPE=RelWithDebInfo -DCMAKE_C_FLAGS=-Wno-error >/dev/null 2>&1 && cmake --build %s -j8 2>&1 | tail -5' % (wt, bdir, bdir))
    return rc == 0 and os.path.exists(os.path.join(bdir, 'src', 'libscientific.so')), out


def compile_demo(demo, wt, bdir, out):
    if demo.endswith('.py'):
        return True, ''
    inc = '-I%s/src -I%s' % (wt, bdir)
    rc, o = sh('gcc -w %s -o %s %s -L%s/src -lscientific -lm -lpthread -Wl,-rpath,%s/src' % (demo, out, inc, bdir, bdir))
    return rc == 0, o


def run_demo(demo, exe, wt, bdir, cwd):
    if demo.endswith('.py'):
        # the package loads libscientific.so (and libblas.so / liblapack.so) from its own directory when it is not installed
        pk = os.path.join(bdir, 'pybind')
        if not os.path.exists(pk):
            shutil.copytree(os.path.join(wt, 'src', 'python_bindings', 'libscientific'), os.path.join(pk, 'libscientific'),
                            ignore=shutil.ignore_patterns('*.so', '__pycache__'))
            os.symlink(os.path.join(bdir, 'src', 'libscientific.so'), os.path.join(pk, 'libscientific', 'libscientific.so'))
            for l in ('libblas.so', 'liblapack.so'):
                os.symlink(os.path.join('/usr/lib/x86_64-linux-gnu', l), os.path.join(pk, 'libscientific', l))
        env = dict(os.environ, PYTHONPATH=pk, LD_LIBRARY_PATH=os.path.join(bdir, 'src'))
        return sh('timeout 300 python3 %s' % demo, cwd=cwd, env=env)
    return sh('timeout 300 %s' % exe, cwd=cwd)


def suite(bdir, scratch):
    res = {}
    tests = sorted(f for f in os.listdir(os.path.join(bdir, 'src', 'tests')) if f.startswith('test') and '.' not in f)
    procs = []
    for t in tests:
        w = os.path.join(scratch, 'run-' + t)
        os.makedirs(w, exist_ok=True)
        procs.append((t, subprocess.Popen('timeout 900 %s >out.txt 2>&1' % os.path.join(bdir, 'src', 'tests', t), shell=True, cwd=w)))
        while sum(1 for _, p in procs if p.poll() is None) >= 8:
            time.sleep(1)
    for t, p in procs:
        res[t] = p.wait()
    # testmatrix Test53 is time-seeded and aborts for ~4 % of wall-clock seconds on the unchanged tree as well: re-run failures twice
    for t in [t for t, r in res.items() if r != 0 and t != 'testica']:
        for _ in range(2):
            time.sleep(2)
            w = os.path.join(scratch, 'run-' + t)
            r = subprocess.run('timeout 900 %s >out.txt 2>&1' % os.path.join(bdir, 'src', 'tests', t), shell=True, cwd=w).returncode
            if r == 0:
                res[t] = 0
                break
    return res


def recheck(name):
    """re-run every claimed quick check against the recorded patch (scratch copy of /repo/src) and refresh meta.json"""
    dst = os.path.join(VERIF, 'seeded', name)
    meta = json.load(open(os.path.join(dst, 'meta.json')))
    patch = os.path.join(dst, 'patch.diff')
    tmp_root = tempfile.mkdtemp(prefix='lsv-seedsrc-')
    checks = {}
    try:
        shutil.copytree(os.path.join(REPO, 'src'), os.path.join(tmp_root, 'src'), ignore=shutil.ignore_patterns('tests'))
        rc, out = sh('patch -p1 -s -f -d %s < %s' % (tmp_root, patch))
        if rc != 0:
            meta['recheck_error'] = 'patch no longer applies to HEAD %s: %s' % (sh('git -C %s rev-parse --short HEAD' % REPO)[1].strip(), out[-200:])
        else:
            meta.pop('recheck_error', None)
            man = json.load(open(os.path.join(VERIF, 'MANIFEST.json')))
            for c in man['checks']:
                pid = c['property_id']
                evd = tempfile.mkdtemp(prefix='lsv-ev-')
                env = dict(os.environ, LSV_EVID=evd, LSV_REPO=tmp_root, LSV_SELFTEST='1')
                rc, out = sh(c['quick_cmd'], cwd=VERIF, env=env, timeout=1200)
                checks[pid] = {'exit': rc, 'report': [l[:300] for l in out.splitlines() if l.startswith('src/')][:4]}
                shutil.rmtree(evd, ignore_errors=True)
            meta['checks'] = checks
            meta['checks_run_on'] = 'scratch copy of /repo/src via LSV_REPO (HEAD %s)' % sh('git -C %s rev-parse --short HEAD' % REPO)[1].strip()
            meta['caught_by'] = sorted(p for p, v in checks.items() if v['exit'] == 1)
            meta['caught_by_target_property'] = checks.get(meta['property'], {}).get('exit') == 1
    finally:
        shutil.rmtree(tmp_root, ignore_errors=True)
    json.dump(meta, open(os.path.join(dst, 'meta.json'), 'w'), indent=1)
    print(name, meta['property'], 'caught_by', meta.get('caught_by'), meta.get('recheck_error', ''))
    return 0


def main():
    if len(sys.argv) >= 3 and sys.argv[1] == 'recheck':
        names = sorted(os.listdir(os.path.join(VERIF, 'seeded'))) if sys.argv[2] == 'all' else sys.argv[2:]
        for n in names:
            if os.path.exists(os.path.join(VERIF, 'seeded', n, 'meta.json')):
                recheck(n)
        return 0
    if len(sys.argv) < 5 or sys.argv[1] != 'confirm':
        print(__doc__)
        return 2
    name, prop, src = sys.argv[2], sys.argv[3], sys.argv[4]
    skip_suite = '--skip-suite' in sys.argv
    dst = os.path.join(VERIF, 'seeded', name)
    os.makedirs(dst, exist_ok=True)
    for f in os.listdir(src):
        if f in ('patch.diff', 'README.md') or f.startswith('demo.'):
            shutil.copy(os.path.join(src, f), os.path.join(dst, f))
    patch = os.path.join(dst, 'patch.diff')
    demos = [f for f in os.listdir(dst) if f.startswith('demo.')]
    meta = {'name': name, 'property': prop, 'ran': [], 'confirmed': False}
    if not os.path.exists(patch) or not demos:
        meta['error'] = 'patch.diff or demo missing'
        json.dump(meta, open(os.path.join(dst, 'meta.json'), 'w'), indent=1)
        print(meta['error'])
        return 1
    demo = os.path.join(dst, demos[0])
    scratch = tempfile.mkdtemp(prefix='lsv-seed-')
    wt = os.path.join(scratch, 'wt')
    try:
        rc, out = sh('git -C %s worktree add -q --detach %s HEAD' % (REPO, wt))
        meta['ran'].append('git worktree add (HEAD %s)' % sh('git -C %s rev-parse --short HEAD' % REPO)[1].strip())
        ok, out = build(wt, os.path.join(scratch, 'b0'))
        if not ok:
            meta['error'] = 'unchanged tree does not build: ' + out[-300:]
            raise SystemExit
        okc, out = compile_demo(demo, wt, os.path.join(scratch, 'b0'), os.path.join(scratch, 'demo0'))
        if not okc:
            meta['error'] = 'demo does not compile against the unchanged tree: ' + out[-400:]
            raise SystemExit
        rc0, out0 = run_demo(demo, os.path.join(scratch, 'demo0'), wt, os.path.join(scratch, 'b0'), scratch)
        meta['demo_unchanged'] = {'exit': rc0, 'tail': out0[-300:]}
        rc, out = sh('git -C %s apply %s' % (wt, patch))
        if rc != 0:
            meta['error'] = 'patch does not apply to HEAD: ' + out[-300:]
            raise SystemExit
        ok, out = build(wt, os.path.join(scratch, 'b1'))
        if not ok:
            meta['error'] = 'patched tree does not build: ' + out[-300:]
            raise SystemExit
        compile_demo(demo, wt, os.path.join(scratch, 'b1'), os.path.join(scratch, 'demo1'))
        rc1, out1 = run_demo(demo, os.path.join(scratch, 'demo1'), wt, os.path.join(scratch, 'b1'), scratch)
        meta['demo_changed'] = {'exit': rc1, 'tail': out1[-300:]}
        meta['ran'] += ['cmake build unchanged + patched', 'demo against both builds']
        if not skip_suite:
            res = suite(os.path.join(scratch, 'b1'), scratch)
            bad = {t: r for t, r in res.items() if r != 0 and t != 'testica'}
            meta['suite'] = {'executables': len(res), 'failing': bad}
            meta['ran'].append('all %d test executables of the patched build' % len(res))
        else:
            meta['suite'] = 'skipped'
        meta['confirmed'] = (rc0 == 0 and rc1 != 0 and (skip_suite or not meta['suite']['failing']))
    except SystemExit:
        pass
    finally:
        sh('git -C %s worktree remove --force %s' % (REPO, wt))
        shutil.rmtree(scratch, ignore_errors=True)
    # run every claimed check against the patched sources: --in-repo applies the patch to /repo itself (git apply ... checkout),
    # the default uses a scratch copy of /repo/src selected through LSV_REPO (same analysis, lets several confirmations overlap)
    checks = {}
    if meta.get('confirmed') or '--force-checks' in sys.argv:
        in_repo = '--in-repo' in sys.argv
        root = REPO
        tmp_root = None
        okp = True
        if in_repo:
            st = sh('git -C %s status --porcelain --untracked-files=no' % REPO)[1].strip()
            if st:
                meta['error'] = '/repo has uncommitted changes, checks not run'
                okp = False
            else:
                okp = sh('git -C %s apply %s' % (REPO, patch))[0] == 0
        else:
            tmp_root = tempfile.mkdtemp(prefix='lsv-seedsrc-')
            shutil.copytree(os.path.join(REPO, 'src'), os.path.join(tmp_root, 'src'), ignore=shutil.ignore_patterns('tests'))
            okp = sh('patch -p1 -s -d %s < %s' % (tmp_root, patch))[0] == 0
            root = tmp_root
        try:
            if okp:
                man = json.load(open(os.path.join(VERIF, 'MANIFEST.json')))
                for c in man['checks']:
                    pid = c['property_id']
                    evd = tempfile.mkdtemp(prefix='lsv-ev-')
                    env = dict(os.environ, LSV_EVID=evd, LSV_REPO=root, LSV_SELFTEST='1')
                    rc, out = sh(c['quick_cmd'], cwd=VERIF, env=env, timeout=1200)
                    checks[pid] = {'exit': rc, 'report': [l[:300] for l in out.splitlines() if l.startswith('src/')][:4]}
                    shutil.rmtree(evd, ignore_errors=True)
            else:
                meta['error'] = 'patch does not apply for the check run'
        finally:
            if in_repo:
                sh('git -C %s checkout -- .' % REPO)
            if tmp_root:
                shutil.rmtree(tmp_root, ignore_errors=True)
        meta['checks_run_on'] = '/repo (git apply / checkout)' if in_repo else 'scratch copy of /repo/src via LSV_REPO'
        meta['checks'] = checks
        meta['caught_by'] = sorted(p for p, v in checks.items() if v['exit'] == 1)
        meta['caught_by_target_property'] = checks.get(prop, {}).get('exit') == 1
    json.dump(meta, open(os.path.join(dst, 'meta.json'), 'w'), indent=1)
    print(json.dumps({k: meta.get(k) for k in ('name', 'property', 'confirmed', 'caught_by', 'error', 'demo_unchanged', 'demo_changed', 'suite')}, indent=1)[:1500])
    return 0


if __name__ == '__main__':
    sys.exit(main())
