#!/usr/bin/env python3
"""Run every check (quick tier) against every recorded behaviour-preserving refactoring and record the outcome matrix.

  tools/refactor_matrix.py            -> writes refactorings/RESULTS.json, exits 1 if any run reports a violation

Each patch is applied to a scratch copy of /repo/src (never to /repo)."""
import json
import os
import shutil
import subprocess
import sys
import tempfile
from concurrent.futures import ThreadPoolExecutor

VERIF = os.path.dirname(os.path.dirname(os.path.abspath(__file__)))
REPO = os.environ.get('LSV_REPO', '/repo')
PROPS = ['C%02d' % i for i in range(1, 21)]


def one(name):
    base = tempfile.mkdtemp(prefix='lsv-ref-')
    res = {}
    try:
        shutil.copytree(os.path.join(REPO, 'src'), os.path.join(base, 'src'), ignore=shutil.ignore_patterns('*.o', '*.so'))
        r = subprocess.run('patch -p1 -s -f -d %s < %s' % (base, os.path.join(VERIF, 'refactorings', name, 'patch.diff')), shell=True,
                           stdout=subprocess.PIPE, stderr=subprocess.STDOUT)
        if r.returncode != 0:
            return name, {'error': 'patch does not apply: ' + r.stdout.decode()[:200]}
        for p in PROPS:
            env = dict(os.environ, LSV_REPO=base, LSV_EVID=os.path.join(base, 'ev'), LSV_SELFTEST='1')
            r = subprocess.run([os.path.join(VERIF, 'check'), p, '--tier', 'quick'], env=env, cwd=VERIF, stdout=subprocess.PIPE, stderr=subprocess.PIPE)
            out = r.stdout.decode()
            res[p] = 'VIOLATION' if (r.returncode == 1 or 'VIOLATION property' in out) else {0: 'hold', 2: 'analysis-broken'}.get(r.returncode, 'exit %d' % r.returncode)
        return name, res
    finally:
        shutil.rmtree(base, ignore_errors=True)


def main():
    names = sorted(d for d in os.listdir(os.path.join(VERIF, 'refactorings')) if os.path.exists(os.path.join(VERIF, 'refactorings', d, 'patch.diff')))
    with ThreadPoolExecutor(max_workers=5) as ex:
        results = dict(ex.map(one, names))
    head = subprocess.run('git -C %s rev-parse --short HEAD' % REPO, shell=True, stdout=subprocess.PIPE).stdout.decode().strip()
    flat = [v for r in results.values() for v in r.values()]
    summary = {'repo_head': head, 'patches': len(names), 'runs': len(flat), 'hold': flat.count('hold'), 'analysis_broken': flat.count('analysis-broken'),
               'violations': flat.count('VIOLATION'), 'silent_everywhere': sorted(n for n, r in results.items() if all(v == 'hold' for v in r.values()))}
    json.dump({'summary': summary, 'matrix': results}, open(os.path.join(VERIF, 'refactorings', 'RESULTS.json'), 'w'), indent=1, sort_keys=True)
    print(json.dumps(summary, indent=1))
    for n, r in sorted(results.items()):
        odd = {p: v for p, v in r.items() if v != 'hold'}
        print('%-58s %s' % (n, odd or 'hold on all 20'))
    return 1 if summary['violations'] else 0


if __name__ == '__main__':
    sys.exit(main())
